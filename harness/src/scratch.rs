//! Scratch space outside /repo and /verif, removed when the check ends.

use std::path::{Path, PathBuf};
use std::sync::OnceLock;

static ROOT: OnceLock<PathBuf> = OnceLock::new();

pub fn root() -> &'static Path {
    ROOT.get_or_init(|| {
        let base = std::env::var("MRV_SCRATCH")
            .ok()
            .or_else(|| std::env::var("TMPDIR").ok())
            .unwrap_or_else(|| "/tmp".to_string());
        let p = PathBuf::from(base).join(format!("mrverif-{}", std::process::id()));
        let _ = std::fs::remove_dir_all(&p);
        std::fs::create_dir_all(&p).expect("cannot create scratch root");
        p
    })
}

static FAST: OnceLock<PathBuf> = OnceLock::new();
/// A memory-backed scratch root (tmpfs under /dev/shm) for in-process sweeps that rewrite a
/// small file hundreds of thousands of times; the ordinary root where there is no /dev/shm.
pub fn fast_root() -> &'static Path {
    FAST.get_or_init(|| {
        let p = PathBuf::from("/dev/shm").join(format!("mrverif-{}", std::process::id()));
        let _ = std::fs::remove_dir_all(&p);
        if std::env::var("MRV_SCRATCH").is_err() && std::fs::create_dir_all(&p).is_ok() {
            p
        } else {
            root().to_path_buf()
        }
    })
}

pub fn cleanup() {
    if let Some(p) = FAST.get() {
        let _ = std::fs::remove_dir_all(p);
    }
    if let Some(p) = ROOT.get() {
        let _ = std::fs::remove_dir_all(p);
    }
}

static UNIVERSE: OnceLock<PathBuf> = OnceLock::new();
/// The shared read-only work directory of the in-process engine.
pub fn universe() -> &'static Path {
    UNIVERSE.get_or_init(|| {
        let p = root().join("universe");
        crate::gen::make_universe(&p).expect("cannot create universe");
        p
    })
}
