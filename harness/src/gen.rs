//! Generators shared by several properties. Everything random comes from
//! proptest strategies so that shrinking and seeding work.

use crate::model::{comps, inside, ConfigSpec, TargetSpec};
use crate::runner::pick;
use proptest::collection::vec;
use proptest::prelude::*;
use serde::{Deserialize, Serialize};
use std::collections::{BTreeMap, BTreeSet};

/// Component alphabet of the in-process universe: many byte-prefix pairs
/// (a/ab/a-b/a.b/app/app2), punctuation, non-ASCII.
/// Path components. The last one is long: nineteen 3-byte characters and one ASCII character
/// (58 bytes), so that byte offsets counted from either end of a path mostly fall inside a
/// character; nested it makes paths of up to 180 bytes.
pub const ALPHA: [&str; 9] = ["a", "ab", "a-b", "a.b", "app", "app2", "lib", "é", "共有ライブラリと生成されたスキーマ定義2"];
pub const UNIVERSE_DEPTH: usize = 3;

/// Create the universe work directory: every path over ALPHA up to depth 3 is a
/// directory containing one file `f`. Any target path over ALPHA then satisfies
/// monorail's "directory contains a file" requirement without per-case I/O.
pub fn make_universe(root: &std::path::Path) -> std::io::Result<()> {
    fn rec(dir: &std::path::Path, depth: usize) -> std::io::Result<()> {
        std::fs::write(dir.join("f"), b"x\n")?;
        if depth == 0 {
            return Ok(());
        }
        for c in ALPHA {
            let d = dir.join(c);
            std::fs::create_dir_all(&d)?;
            rec(&d, depth - 1)?;
        }
        Ok(())
    }
    std::fs::create_dir_all(root)?;
    for c in ALPHA {
        let d = root.join(c);
        std::fs::create_dir_all(&d)?;
        rec(&d, UNIVERSE_DEPTH - 1)?;
    }
    // directories of the filler targets of `embed_in_fillers`
    for i in 0..MAX_FILLERS {
        let d = root.join(filler_path(i));
        std::fs::create_dir_all(&d)?;
        std::fs::write(d.join("f"), b"x\n")?;
    }
    Ok(())
}

pub const MAX_FILLERS: usize = 200;
pub fn filler_path(i: usize) -> String {
    format!("zz-fill/f{:03}", i)
}

/// The same configuration inside a large one: `n_fill` independent filler targets are declared
/// around it, `before` of them in front (configurations beyond 64 / 128 targets, with the
/// interesting part anywhere in the declaration order).
pub fn embed_in_fillers(cfg: &ConfigSpec, n_fill: usize, before: usize) -> ConfigSpec {
    let n_fill = n_fill.min(MAX_FILLERS);
    let before = before.min(n_fill);
    let mut targets = vec![];
    for i in 0..before {
        targets.push(crate::model::TargetSpec::new(&filler_path(i)));
    }
    targets.extend(cfg.targets.iter().cloned());
    for i in before..n_fill {
        targets.push(crate::model::TargetSpec::new(&filler_path(i)));
    }
    ConfigSpec { targets, ..cfg.clone() }
}

/// Filler counts around the sizes 64 and 128 (the small configuration adds 1-8 targets).
pub fn filler_count() -> impl Strategy<Value = (usize, u16)> {
    (prop_oneof![3 => 56usize..=70, 2 => 120usize..=134, 1 => 20usize..=199], any::<u16>())
}

#[derive(Debug, Clone)]
pub struct RawTarget {
    pub path: Vec<u16>, // indices into the case's sub-alphabet, 1..=3 comps
    pub key: u16,       // priority in the hidden order
    pub uses: Vec<(u8, u16, u16)>,
    pub ignores: Vec<(u8, u16, u16)>,
}

#[derive(Debug, Clone)]
pub struct RawConfig {
    /// bit i: the i-th target path is written with a trailing slash (in-process only)
    pub trailing_slash: u16,
    pub sub: Vec<usize>, // indices into ALPHA
    pub targets: Vec<RawTarget>,
    pub perm: Vec<u16>, // declaration order keys
    pub back_edge: Option<(u16, u16)>,
}

#[derive(Debug, Clone, Copy, PartialEq, Eq)]
pub enum CycleMode {
    /// edges only from later to earlier in a hidden order
    Acyclic,
    /// no restriction
    Any,
    /// acyclic construction plus one forced back edge
    ForcedCycle,
}

pub fn raw_config(max_targets: usize, max_uses: usize, max_ignores: usize) -> impl Strategy<Value = RawConfig> {
    let sub = proptest::sample::subsequence((0..ALPHA.len()).collect::<Vec<_>>(), 2..=4);
    let target = (
        vec(any::<u16>(), 1..=UNIVERSE_DEPTH),
        any::<u16>(),
        vec((0u8..9, any::<u16>(), any::<u16>()), 0..=max_uses),
        vec((0u8..7, any::<u16>(), any::<u16>()), 0..=max_ignores),
    )
        .prop_map(|(path, key, uses, ignores)| RawTarget {
            path,
            key,
            uses,
            ignores,
        });
    (
        sub,
        vec(target, 1..=max_targets),
        vec(any::<u16>(), max_targets),
        proptest::option::of((any::<u16>(), any::<u16>())),
        prop_oneof![3 => Just(0u16), 1 => any::<u16>()],
    )
        .prop_map(|(sub, targets, perm, back_edge, trailing_slash)| RawConfig {
            trailing_slash,
            sub,
            targets,
            perm,
            back_edge,
        })
}

fn sub_path(sub: &[usize], idx: &[u16]) -> String {
    idx.iter()
        .map(|&i| ALPHA[sub[pick(i, sub.len())]])
        .collect::<Vec<_>>()
        .join("/")
}

/// A byte-prefix sibling of path `p` (same parent, last component replaced by a
/// name that has the original as a raw string prefix, or vice versa).
pub fn prefix_sibling(p: &str, sel: u16) -> String {
    let mut c: Vec<String> = comps(p).iter().map(|s| s.to_string()).collect();
    let last = c.pop().unwrap_or_default();
    let cands: Vec<String> = match last.as_str() {
        "a" => vec!["ab".into(), "a-b".into(), "a.b".into(), "app".into()],
        "app" => vec!["app2".into(), "a".into()],
        "ab" | "a-b" | "a.b" => vec!["a".into(), format!("{}2", last)],
        "app2" => vec!["app".into(), "a".into()],
        other => vec![format!("{}2", other), format!("{}-web", other)],
    };
    c.push(cands[pick(sel, cands.len())].clone());
    c.join("/")
}

/// Turn raw choices into a concrete configuration.
pub fn build_config(raw: &RawConfig, mode: CycleMode) -> ConfigSpec {
    // distinct target paths
    let mut seen = BTreeSet::new();
    let mut ts: Vec<(String, &RawTarget)> = vec![];
    for rt in &raw.targets {
        let p = sub_path(&raw.sub, &rt.path);
        if seen.insert(p.clone()) {
            ts.push((p, rt));
        }
    }
    // hidden order: ancestors first, otherwise by key
    let n = ts.len();
    let mut placed: Vec<usize> = vec![];
    let mut remaining: BTreeSet<usize> = (0..n).collect();
    while !remaining.is_empty() {
        let mut best: Option<usize> = None;
        for &i in &remaining {
            let ready = remaining
                .iter()
                .all(|&j| j == i || !(inside(&ts[i].0, &ts[j].0)));
            if ready && best.map(|b| (ts[i].1.key, i) < (ts[b].1.key, b)).unwrap_or(true) {
                best = Some(i);
            }
        }
        let b = best.unwrap_or_else(|| *remaining.iter().next().unwrap());
        remaining.remove(&b);
        placed.push(b);
    }
    let mut rank = vec![0usize; n];
    for (r, &i) in placed.iter().enumerate() {
        rank[i] = r;
    }
    let paths: Vec<String> = ts.iter().map(|t| t.0.clone()).collect();

    let mut specs: Vec<TargetSpec> = vec![];
    for (i, (p, rt)) in ts.iter().enumerate() {
        let mut t = TargetSpec::new(p);
        let nested: Vec<&String> = paths
            .iter()
            .filter(|q| *q != p && inside(q, p))
            .collect();
        for &(kind, a, b) in &rt.uses {
            let other = &paths[pick(a, n)];
            let comp = ALPHA[raw.sub[pick(b, raw.sub.len())]];
            let e: String = match kind {
                0 => other.clone(),
                1 => format!("{}/f", other),
                2 => format!("{}/{}", other, comp),
                3 => {
                    let c = comps(other);
                    if c.len() > 1 {
                        c[..c.len() - 1].join("/")
                    } else {
                        comp.to_string()
                    }
                }
                4 => {
                    let d = 1 + pick(b, 3);
                    let idx: Vec<u16> = (0..d).map(|k| a.rotate_left(5 * k as u32) ^ b).collect();
                    sub_path(&raw.sub, &idx)
                }
                5 => {
                    if nested.is_empty() {
                        format!("{}/{}", p, comp)
                    } else {
                        format!("{}/f", nested[pick(b, nested.len())])
                    }
                }
                6 => prefix_sibling(other, b),
                7 => format!("{}/f.txt", other),
                _ => format!("{}/{}/{}", other, comp, comp),
            };
            if e == *p {
                continue;
            }
            if mode != CycleMode::Any {
                // every target the entry lies inside must be earlier in the hidden order
                let ok = (0..n).all(|j| j == i || !inside(&e, &paths[j]) || rank[j] < rank[i]);
                if !ok {
                    continue;
                }
            }
            if !t.uses.contains(&e) {
                t.uses.push(e);
            }
        }
        for &(kind, a, b) in &rt.ignores {
            let comp = ALPHA[raw.sub[pick(b, raw.sub.len())]];
            let e: String = match kind {
                0 => format!("{}/f", p),
                1 => format!("{}/{}", p, comp),
                2 => {
                    if nested.is_empty() {
                        format!("{}/{}/f", p, comp)
                    } else {
                        nested[pick(a, nested.len())].clone()
                    }
                }
                3 => {
                    if t.uses.is_empty() {
                        format!("{}/f.txt", p)
                    } else {
                        let u = &t.uses[pick(a, t.uses.len())];
                        if b & 1 == 0 {
                            u.clone()
                        } else {
                            format!("{}/f", u)
                        }
                    }
                }
                4 => format!("{}/fx", p),
                5 => {
                    let o = &paths[pick(a, n)];
                    format!("{}/{}", o, comp)
                }
                _ => p.clone(),
            };
            if !t.ignores.contains(&e) {
                t.ignores.push(e);
            }
        }
        specs.push(t);
    }
    if mode == CycleMode::ForcedCycle && n >= 2 {
        // add one back edge: an earlier target uses a path inside a later one that
        // (transitively) depends on it, or simply closes a 2-cycle
        let (a, b) = raw.back_edge.unwrap_or((0, 0));
        let hi = placed[1 + pick(a, n - 1)]; // later in hidden order
        let lo_rank = pick(b, rank[hi]); // strictly earlier
        let lo = placed[lo_rank];
        // make sure hi depends on lo (directly or transitively), then lo uses hi
        let hi_path = paths[hi].clone();
        let lo_path = paths[lo].clone();
        let tmp = ConfigSpec {
            targets: specs.clone(),
            ..Default::default()
        };
        let adj = crate::model::dep_adj(&tmp);
        if !crate::model::closure(&adj, &[hi]).contains(&lo) {
            specs[hi].uses.push(lo_path.clone());
        }
        let e = if b & 1 == 0 {
            hi_path.clone()
        } else {
            format!("{}/f", hi_path)
        };
        if !specs[lo].uses.contains(&e) {
            specs[lo].uses.push(e);
        }
    }
    // some target paths are written with a trailing separator (same directory, same meaning)
    if raw.trailing_slash != 0 {
        let mut slashed: Vec<String> = vec![];
        for (i, t) in specs.iter_mut().enumerate() {
            if raw.trailing_slash >> (i % 16) & 1 == 1 {
                slashed.push(t.path.clone());
                t.path.push('/');
            }
        }
        // (a `uses` entry may name such a directory with or without the separator: F11, fixed)
        let _ = slashed;
    }
    // declaration order
    let mut order: Vec<usize> = (0..n).collect();
    order.sort_by_key(|&i| (raw.perm.get(i).copied().unwrap_or(0), i));
    let targets = order.into_iter().map(|i| specs[i].clone()).collect();
    ConfigSpec {
        targets,
        ..Default::default()
    }
}

/// Raw change choice -> path, relative to a configuration.
pub fn change_path(cfg: &ConfigSpec, kind: u8, a: u16, b: u16) -> String {
    // a change provider never reports empty components or a trailing separator
    let mut p = change_path_raw(cfg, kind, a, b);
    while p.contains("//") {
        p = p.replace("//", "/");
    }
    while p.ends_with('/') {
        p.pop();
    }
    // a target written `dir/` is a directory: a changed *file* called `dir` cannot coexist with
    // it, so the bare name stands for a file inside it
    let slashed = format!("{}/", p);
    if cfg.targets.iter().any(|t| t.path == slashed) {
        p = format!("{}f", slashed);
    }
    p
}

fn change_path_raw(cfg: &ConfigSpec, kind: u8, a: u16, b: u16) -> String {
    let n = cfg.targets.len().max(1);
    let t = &cfg.targets[pick(a, n).min(cfg.targets.len().saturating_sub(1))];
    let file = ["f", "fx", "f.txt", "f.txtx", "g/h.rs", "é.md"][pick(b, 6)];
    match kind {
        0 => format!("{}/{}", t.path, file),
        1 => {
            if t.uses.is_empty() {
                format!("{}/{}", t.path, file)
            } else {
                let u = &t.uses[pick(b, t.uses.len())];
                match b % 3 {
                    0 => u.clone(),
                    1 => format!("{}/{}", u, file),
                    _ => format!("{}x", u),
                }
            }
        }
        2 => {
            if t.ignores.is_empty() {
                format!("{}/{}", t.path, file)
            } else {
                let i = &t.ignores[pick(b, t.ignores.len())];
                match b % 4 {
                    0 => i.clone(),
                    1 => format!("{}/{}", i, file),
                    2 => format!("{}x", i),
                    _ => format!("{}/f", i),
                }
            }
        }
        3 => format!("{}/{}", prefix_sibling(&t.path, b), file),
        4 => format!("{}2/{}", t.path, file),
        5 => t.path.clone(),
        6 => format!("zzz/outside/{}", file),
        7 => {
            // a path in the parent directory of the target
            let c = comps(&t.path);
            if c.len() > 1 {
                format!("{}/{}", c[..c.len() - 1].join("/"), file)
            } else {
                file.to_string()
            }
        }
        _ => format!("{}/{}/{}", t.path, ALPHA[pick(b, ALPHA.len())], file),
    }
}

/// Number of changes, biased to straddle the internal batch size of 50.
pub fn change_count() -> impl Strategy<Value = usize> {
    prop_oneof![
        6 => 0usize..=6,
        2 => 7usize..=48,
        2 => prop_oneof![Just(49usize), Just(50), Just(51), Just(99), Just(100), Just(101)],
        1 => 102usize..=400,
    ]
}

pub fn raw_changes() -> impl Strategy<Value = Vec<(u8, u16, u16)>> {
    change_count().prop_flat_map(|n| vec((0u8..9, any::<u16>(), any::<u16>()), n))
}

#[derive(Debug, Clone, Serialize, Deserialize)]
pub struct ConfigCase {
    pub config: ConfigSpec,
}

/// Relabel helper: index of every target path.
pub fn index_of(cfg: &ConfigSpec) -> BTreeMap<String, usize> {
    cfg.targets
        .iter()
        .enumerate()
        .map(|(i, t)| (t.path.clone(), i))
        .collect()
}

/// A layered configuration: `layers[i]` targets in layer i; every target of layer
/// i>0 uses at least one target of layer i-1 (chosen by `picks`).
pub fn layered_config(layers: &[usize], picks: &[u16]) -> ConfigSpec {
    let mut targets = vec![];
    let mut k = 0usize;
    let mut pk = |m: usize| {
        let v = pick(picks.get(k % picks.len().max(1)).copied().unwrap_or(0), m);
        k += 1;
        v
    };
    for (li, &cnt) in layers.iter().enumerate() {
        for j in 0..cnt {
            let mut t = TargetSpec::new(&format!("l{}t{}", li, j));
            if li > 0 {
                let prev = layers[li - 1];
                let first = pk(prev);
                t.uses.push(format!("l{}t{}", li - 1, first));
                let extra = pk(3);
                for _ in 0..extra {
                    let o = pk(prev);
                    let u = format!("l{}t{}", li - 1, o);
                    if !t.uses.contains(&u) {
                        t.uses.push(u);
                    }
                }
            }
            targets.push(t);
        }
    }
    ConfigSpec {
        targets,
        ..Default::default()
    }
}

// ---------------------------------------------------------------------------
// decoding of raw choices from fuzzer bytes (same case types as the strategies)

pub mod decode {
    use super::*;

    pub struct Bytes<'a> {
        data: &'a [u8],
        pos: usize,
    }
    impl<'a> Bytes<'a> {
        pub fn new(data: &'a [u8]) -> Self {
            Bytes { data, pos: 0 }
        }
        pub fn u8(&mut self) -> u8 {
            let v = self.data.get(self.pos).copied().unwrap_or(0);
            self.pos += 1;
            v
        }
        pub fn u16(&mut self) -> u16 {
            (self.u8() as u16) << 8 | self.u8() as u16
        }
        pub fn u64(&mut self) -> u64 {
            let mut v = 0u64;
            for _ in 0..8 {
                v = v << 8 | self.u8() as u64;
            }
            v
        }
        pub fn below(&mut self, n: usize) -> usize {
            if n == 0 {
                0
            } else {
                self.u8() as usize % n
            }
        }
        pub fn exhausted(&self) -> bool {
            self.pos >= self.data.len()
        }
        pub fn rest(&mut self) -> &'a [u8] {
            let r = &self.data[self.pos.min(self.data.len())..];
            self.pos = self.data.len();
            r
        }
    }

    pub fn raw_config(b: &mut Bytes, max_targets: usize, max_uses: usize, max_ignores: usize) -> RawConfig {
        // sub-alphabet: 2..=4 distinct indices
        let k = 2 + b.below(3);
        let mut sub: Vec<usize> = vec![];
        let mask = b.u16();
        for i in 0..ALPHA.len() {
            if mask >> i & 1 == 1 && sub.len() < k {
                sub.push(i);
            }
        }
        let mut i = 0;
        while sub.len() < 2 {
            if !sub.contains(&i) {
                sub.push(i);
            }
            i += 1;
        }
        sub.sort();
        let nt = 1 + b.below(max_targets);
        let mut targets = vec![];
        for _ in 0..nt {
            let depth = 1 + b.below(UNIVERSE_DEPTH);
            let path = (0..depth).map(|_| b.u16()).collect();
            let key = b.u16();
            let nu = b.below(max_uses + 1);
            let uses = (0..nu).map(|_| (b.u8() % 9, b.u16(), b.u16())).collect();
            let ni = b.below(max_ignores + 1);
            let ignores = (0..ni).map(|_| (b.u8() % 7, b.u16(), b.u16())).collect();
            targets.push(RawTarget { path, key, uses, ignores });
        }
        let perm = (0..max_targets).map(|_| b.u16()).collect();
        let back_edge = if b.u8() & 1 == 1 { Some((b.u16(), b.u16())) } else { None };
        let trailing_slash = if b.u8() % 4 == 0 { b.u16() } else { 0 };
        RawConfig {
            trailing_slash,
            sub,
            targets,
            perm,
            back_edge,
        }
    }
}
