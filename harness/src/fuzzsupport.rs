//! Glue for the libFuzzer targets: a violation found by a fuzz target is written
//! as an ordinary replay file (so the strict checker can re-judge it) and then
//! turned into a crash so that libFuzzer stops and keeps the input.

use crate::runner::Violation;
use serde::Serialize;
use serde_json::json;

pub fn report<C: Serialize>(id: &str, label: &str, case: &C, v: &Violation) -> ! {
    let dir = std::path::Path::new(crate::runner::VERIF_ROOT).join("replays");
    let _ = std::fs::create_dir_all(&dir);
    let body = json!({
        "property": id, "tier": "thorough", "seed": 0, "label": label, "signature": v.signature,
        "message": v.msg, "observed": v.observed, "case": case, "found_by": "libFuzzer",
    });
    let name = format!("{}-fuzz-{}.json", id, std::process::id());
    let p = dir.join(name);
    let _ = std::fs::write(&p, serde_json::to_string_pretty(&body).unwrap());
    eprintln!("FUZZ-VIOLATION property={} replay={} [{}] {}", id, p.display(), v.signature, v.msg);
    std::process::abort();
}
