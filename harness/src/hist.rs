//! Repository-history model: the harness keeps its own maps of commit trees,
//! index and working tree and applies every generated operation both to a real
//! git repository and to the model.

use crate::bb::{self, Env};
use crate::model::{ConfigSpec, TargetSpec};
use crate::runner::pick;
use serde::{Deserialize, Serialize};
use serde_json::Value;
use std::collections::{BTreeMap, BTreeSet};

pub type Tree = BTreeMap<String, Vec<u8>>;

#[derive(Debug, Clone, Serialize, Deserialize, PartialEq)]
pub enum Op {
    Create(u16, u16),
    Edit(u16),
    Delete(u16),
    /// (which file, destination dir, destination name, use `git mv`)
    Move(u16, u16, u16, bool),
    StagePath(u16),
    StageAll,
    CommitStaged,
    CommitAll,
    CreateIgnored(u16),
    /// create again (fresh content) a path that existed in some commit but is gone now
    Recreate(u16),
    /// write fresh content to the case's hot file (creating it if it is gone)
    HotEdit,
    /// delete the case's hot file if it exists
    HotDelete,
    /// (dir, slot, size class): write a large file of pseudo-random content (sizes around
    /// the I/O buffer boundaries 64 KiB and 2 MiB, up to 2 MiB + 70 KB)
    BigWrite(u16, u16, u16),
    /// change only the last bytes of a file (content it never had), keeping the head
    TailEdit(u16),
    /// the same for the case's hot file
    HotTailEdit,
    /// write a file again with exactly the content it already has (new mtime, same bytes)
    Rewrite(u16),
    /// create many small untracked files at once (a pending map far beyond 64 KiB)
    BulkCreate(u16),
    /// create 101-149 or 201-249 small files (more changes than two internal batches of 50)
    BulkSmall(u16),
    /// change a file to content it never had, then put its modification time back to a moment
    /// long before any checkpoint was written (what `cp -p`, `tar -x` or `rsync -t` do)
    EditOldMtime(u16),
    /// the same for the case's hot file
    HotEditOldMtime,
    /// truncate a file to zero length (present but empty: not the same as absent)
    MakeEmpty(u16),
    /// make the case's hot file an empty file (creating it if it is gone)
    HotEmpty,
    /// (which file, destination dir, destination name): give another path exactly the content an
    /// existing file has (a copy: new path, but not new content)
    CopyContent(u16, u16, u16),
    /// the same with the case's hot file as the source
    HotCopy(u16, u16),
    /// `git pack-refs --all` (what `git gc` does to the branch refs)
    PackRefs,
    /// `git checkout -- <path>`: a tracked file that was deleted or modified is put back as staged
    Restore(u16),
    /// `git rm --cached <path>`: a tracked file leaves the index but stays in the work tree
    RmCached(u16),
    /// create (or edit) the sibling of an existing file whose name differs only in letter case
    /// (`one/f1.txt` -> `one/F1.TXT`): two distinct paths on a case-sensitive file system
    CaseVariant(u16),
    /// (commit, path): put one path back, uncommitted, to the state it had in an earlier commit -
    /// old bytes restored, a since-added file deleted again, a since-deleted file re-created
    RevertTo(u16, u16),
    /// `git reset --soft <earlier commit>`: HEAD (and the branch) move back to an ancestor; index
    /// and work tree stay as they are
    ResetSoft(u16),
    /// (dir, which): create (or edit) a file whose name begins or ends with a blank
    /// (`notes.txt `, ` draft.md`, `tab\tend\t`)
    BlankEdgeName(u16, u16),
    /// create (or edit) a path whose name continues the name of a directory with a character that
    /// sorts below the separator (`one.txt`, `one-old/b.txt`, `one extra/c.txt` next to `one/...`)
    DirNameSibling(u16),
    /// create (or edit) a file in the target `monorail-outputs` (its name begins with the name
    /// of the output directory, it is not inside it)
    OutDirSibling(u16),
}

pub const BIG_SIZES: [usize; 9] = [
    65_535,
    65_536,
    65_537,
    300_000,
    1 << 20,
    (2 << 20) - 1,
    2 << 20,
    (2 << 20) + 1,
    (2 << 20) + 70_000,
];

fn pseudo_random(seed: u64, len: usize) -> Vec<u8> {
    let mut v = Vec::with_capacity(len + 8);
    let mut x = seed | 1;
    while v.len() < len {
        x ^= x << 13;
        x ^= x >> 7;
        x ^= x << 17;
        v.extend_from_slice(&x.to_le_bytes());
    }
    v.truncate(len);
    v
}

pub const HOT: [&str; 6] = ["one/f1.txt", "two/café.txt", "other dir/f 2.txt", "three/sub/g3.txt", "one/deep/h-4.c", "i_5"];

pub const DIRS: [&str; 6] = ["one", "two", "three/sub", "", "other dir", "one/deep/er"];
pub const NAMES: [&str; 8] = [
    "f1.txt",
    "f 2.txt",
    "café.txt",
    "naïve file.md",
    "Ünï.rs",
    "g3.txt",
    "h-4.c",
    "i_5",
];
pub const IGNORED: [&str; 4] = ["x.ign", "one/y.ign", "ig/z.txt", "two/ig/w.txt"];

pub fn config() -> ConfigSpec {
    let mut one = TargetSpec::new("one");
    one.uses = vec!["other dir".into()];
    let two = TargetSpec::new("two");
    let mut sub = TargetSpec::new("three/sub");
    sub.uses = vec!["two".into()];
    sub.ignores = vec!["three/sub/g3.txt".into()];
    let deep = TargetSpec::new("one/deep");
    // `three` encloses `three/sub`: a path that `three/sub` ignores still belongs to `three`
    let three = TargetSpec::new("three");
    // a target whose name continues the name of monorail's output directory (`monorail-out`)
    let outputs = TargetSpec::new("monorail-outputs");
    ConfigSpec {
        targets: vec![one, two, sub, deep, three, outputs],
        ..Default::default()
    }
}

pub struct Hist {
    pub env: Env,
    pub commits: Vec<(String, Tree)>, // (sha, tree)
    pub index: Tree,
    pub work: Tree,
    pub ignored_files: BTreeSet<String>,
    pub counter: u64,
    pub ignore_out: bool,
    pub log: Vec<String>,
    /// every path that was part of some state (for classification)
    pub moved: bool,
    pub deleted: bool,
    pub odd_name: bool,
    pub hot: String,
    pub big: bool,
    pub tail_edit: bool,
    pub old_mtime: bool,
    pub empty_file: bool,
    pub copied: bool,
    /// HEAD was moved back to this commit (`ResetSoft`) and nothing has been committed since
    pub head_override: Option<usize>,
}

fn is_sentinel(p: &str) -> bool {
    p.ends_with("/src.txt") || p == ".gitignore" || p == "Monorail.json" || p.contains("/monorail/cmd/")
}

impl Hist {
    pub fn new(worker: usize, cfg: &ConfigSpec, ignore_out: bool) -> Result<Hist, String> {
        let mut env = Env::new(worker);
        env.install_config(cfg);
        let mut gi = String::from("*.ign\nig/\n");
        if ignore_out {
            gi.push_str("monorail-out/\n");
        }
        std::fs::write(env.path(".gitignore"), gi).map_err(|e| e.to_string())?;
        env.git_init()?;
        let mut h = Hist {
            env,
            commits: vec![],
            index: Tree::new(),
            work: Tree::new(),
            ignored_files: BTreeSet::new(),
            counter: 0,
            ignore_out,
            log: vec![],
            moved: false,
            deleted: false,
            odd_name: false,
            hot: HOT[0].to_string(),
            big: false,
            tail_edit: false,
            old_mtime: false,
            empty_file: false,
            copied: false,
            head_override: None,
        };
        // initial content: whatever install_config wrote plus a few ordinary files
        for p in HOT {
            let c = h.fresh(p);
            h.env.write_file(p, &c);
        }
        h.scan_worktree();
        h.commit_all()?;
        Ok(h)
    }

    pub fn scan_worktree(&mut self) {
        let snap = walk_files(&self.env.repo);
        self.work.clear();
        for p in snap {
            if p.starts_with(".git/") || p.starts_with("monorail-out/") {
                continue;
            }
            if let Ok(b) = std::fs::read(self.env.path(&p)) {
                self.work.insert(p, b);
            }
        }
    }

    pub fn head(&self) -> usize {
        self.head_override.unwrap_or(self.commits.len() - 1)
    }
    pub fn head_sha(&self) -> &str {
        &self.commits[self.head()].0
    }
    pub fn tree(&self, k: usize) -> &Tree {
        &self.commits[k].1
    }

    fn fresh(&mut self, p: &str) -> Vec<u8> {
        self.counter += 1;
        format!(
            "fresh content #{} of {}\nsecond line {}\nthird line\nfourth line\nfifth line\n",
            self.counter, p, self.counter
        )
        .into_bytes()
    }

    fn editable(&self) -> Vec<String> {
        self.work
            .keys()
            .filter(|p| !is_sentinel(p) && !p.starts_with("monorail-out/"))
            .cloned()
            .collect()
    }

    pub fn commit_all(&mut self) -> Result<(), String> {
        self.env.git_ok(&["add", "-A"])?;
        self.index = self.work.clone();
        self.commit_staged()
    }

    pub fn commit_staged(&mut self) -> Result<(), String> {
        let msg = format!("commit {}", self.commits.len());
        self.env.git_ok(&["commit", "-q", "--allow-empty", "-m", &msg])?;
        let sha = self.env.git_ok(&["rev-parse", "HEAD"])?.trim().to_string();
        self.commits.push((sha, self.index.clone()));
        self.head_override = None;
        Ok(())
    }

    /// Apply one operation to the repository and the model. Returns a short label.
    pub fn apply(&mut self, op: &Op) -> Result<String, String> {
        self.sync_out();
        let label = match op {
            Op::Create(d, n) => {
                let dir = DIRS[pick(*d, DIRS.len())];
                let name = NAMES[pick(*n, NAMES.len())];
                let p = if dir.is_empty() { name.to_string() } else { format!("{}/{}", dir, name) };
                if self.work.contains_key(&p) {
                    // exists: turn into an edit
                    let c = self.fresh(&p);
                    self.env.write_file(&p, &c);
                    self.work.insert(p.clone(), c);
                    format!("edit {:?}", p)
                } else {
                    let c = self.fresh(&p);
                    self.env.write_file(&p, &c);
                    self.work.insert(p.clone(), c);
                    if !p.is_ascii() || p.contains(' ') {
                        self.odd_name = true;
                    }
                    format!("create {:?}", p)
                }
            }
            Op::Edit(f) => {
                let e = self.editable();
                if e.is_empty() {
                    return Ok("noop".into());
                }
                let p = e[pick(*f, e.len())].clone();
                let c = self.fresh(&p);
                self.env.write_file(&p, &c);
                self.work.insert(p.clone(), c);
                format!("edit {:?}", p)
            }
            Op::Delete(f) => {
                let e = self.editable();
                if e.is_empty() {
                    return Ok("noop".into());
                }
                let p = e[pick(*f, e.len())].clone();
                std::fs::remove_file(self.env.path(&p)).map_err(|e| e.to_string())?;
                self.work.remove(&p);
                self.deleted = true;
                format!("delete {:?}", p)
            }
            Op::Move(f, d, n, git_mv) => {
                let e = self.editable();
                if e.is_empty() {
                    return Ok("noop".into());
                }
                let p = e[pick(*f, e.len())].clone();
                let dir = DIRS[pick(*d, DIRS.len())];
                let name = NAMES[pick(*n, NAMES.len())];
                let q = if dir.is_empty() { name.to_string() } else { format!("{}/{}", dir, name) };
                if self.work.contains_key(&q) || q == p {
                    return Ok("noop".into());
                }
                let tracked = self.index.contains_key(&p);
                if let Some(parent) = self.env.path(&q).parent() {
                    std::fs::create_dir_all(parent).map_err(|e| e.to_string())?;
                }
                if *git_mv && tracked {
                    self.env.git_ok(&["mv", &p, &q])?;
                    let ic = self.index.remove(&p).unwrap();
                    // git mv stages the index entry as it was (not the worktree content)
                    self.index.insert(q.clone(), ic);
                } else {
                    std::fs::rename(self.env.path(&p), self.env.path(&q)).map_err(|e| e.to_string())?;
                }
                let c = self.work.remove(&p).unwrap();
                self.work.insert(q.clone(), c);
                self.moved = true;
                if !q.is_ascii() || q.contains(' ') {
                    self.odd_name = true;
                }
                format!("{} {:?} -> {:?}", if *git_mv && tracked { "git mv" } else { "mv" }, p, q)
            }
            Op::StagePath(f) => {
                // any path that differs between index and worktree
                let mut cands: Vec<String> = self
                    .work
                    .keys()
                    .chain(self.index.keys())
                    .filter(|p| self.work.get(*p) != self.index.get(*p))
                    .cloned()
                    .collect();
                cands.sort();
                cands.dedup();
                if cands.is_empty() {
                    return Ok("noop".into());
                }
                let p = cands[pick(*f, cands.len())].clone();
                self.env.git_ok(&["add", "-A", "--", &p])?;
                match self.work.get(&p) {
                    Some(c) => {
                        self.index.insert(p.clone(), c.clone());
                    }
                    None => {
                        self.index.remove(&p);
                    }
                }
                format!("stage {:?}", p)
            }
            Op::StageAll => {
                self.env.git_ok(&["add", "-A"])?;
                self.index = self.work.clone();
                "stage all".into()
            }
            Op::CommitStaged => {
                self.commit_staged()?;
                "commit staged".into()
            }
            Op::PackRefs => {
                self.env.git_ok(&["pack-refs", "--all"])?;
                "pack-refs".into()
            }
            Op::BlankEdgeName(d, k) => {
                let dir = DIRS[pick(*d, DIRS.len())];
                let name = ["notes.txt ", " draft.md", "both ends ", "tab-end\t"][pick(*k, 4)];
                let p = if dir.is_empty() { name.to_string() } else { format!("{}/{}", dir, name) };
                let c = self.fresh(&p);
                self.env.write_file(&p, &c);
                self.work.insert(p.clone(), c);
                self.odd_name = true;
                format!("edit {:?}", p)
            }
            Op::DirNameSibling(k) => {
                let names = ["one.txt", "one-old/b.txt", "one extra/c.txt", "two+.md", "three/sub.txt", "three/sub-x/y.txt", "other dir.bak", "one/deep.er"];
                let p = names[pick(*k, names.len())].to_string();
                let c = self.fresh(&p);
                self.env.write_file(&p, &c);
                self.work.insert(p.clone(), c);
                format!("edit {:?}", p)
            }
            Op::OutDirSibling(k) => {
                let names = ["monorail-outputs/data.txt", "monorail-outputs/report é.md", "monorail-outputs/deep/x.bin"];
                let p = names[pick(*k, names.len())].to_string();
                let c = self.fresh(&p);
                self.env.write_file(&p, &c);
                self.work.insert(p.clone(), c);
                format!("edit {:?}", p)
            }
            Op::ResetSoft(k) => {
                if self.commits.len() < 2 {
                    return Ok("noop".into());
                }
                let c = pick(*k, self.commits.len() - 1);
                let sha = self.commits[c].0.clone();
                self.env.git_ok(&["reset", "-q", "--soft", &sha])?;
                self.head_override = Some(c);
                format!("reset --soft to commit #{}", c)
            }
            Op::Restore(f) => {
                // (never monorail's own files under the out directory, when that is not ignored)
                let cands: Vec<String> = self.index.keys().filter(|p| !p.starts_with("monorail-out/") && self.work.get(*p) != self.index.get(*p)).cloned().collect();
                if cands.is_empty() {
                    return Ok("noop".into());
                }
                let p = cands[pick(*f, cands.len())].clone();
                self.env.git_ok(&["checkout", "--", &p])?;
                let c = self.index[&p].clone();
                self.work.insert(p.clone(), c);
                format!("restore {:?}", p)
            }
            Op::RmCached(f) => {
                let cands: Vec<String> = self.index.keys().filter(|p| !p.starts_with("monorail-out/") && self.work.contains_key(*p)).cloned().collect();
                if cands.is_empty() {
                    return Ok("noop".into());
                }
                let p = cands[pick(*f, cands.len())].clone();
                self.env.git_ok(&["rm", "--cached", "-q", "--", &p])?;
                self.index.remove(&p);
                format!("rm --cached {:?}", p)
            }
            Op::CaseVariant(f) => {
                let e = self.editable();
                if e.is_empty() {
                    return Ok("noop".into());
                }
                let p = e[pick(*f, e.len())].clone();
                let (dir, name) = match p.rsplit_once('/') {
                    Some((d, n)) => (format!("{}/", d), n.to_string()),
                    None => (String::new(), p.clone()),
                };
                let mut other = name.to_uppercase();
                if other == name {
                    other = name.to_lowercase();
                }
                if other == name || other.chars().count() != name.chars().count() {
                    return Ok("noop".into());
                }
                let q = format!("{}{}", dir, other);
                if is_sentinel(&q) {
                    return Ok("noop".into());
                }
                let c = self.fresh(&q);
                self.env.write_file(&q, &c);
                self.work.insert(q.clone(), c);
                if !q.is_ascii() || q.contains(' ') {
                    self.odd_name = true;
                }
                format!("case variant {:?} of {:?}", q, p)
            }
            Op::RevertTo(k, f) => {
                if self.commits.is_empty() {
                    return Ok("noop".into());
                }
                let ci = pick(*k, self.commits.len());
                let tree = self.commits[ci].1.clone();
                let mut cands: Vec<String> = tree
                    .keys()
                    .chain(self.work.keys())
                    .filter(|p| !is_sentinel(p) && !p.starts_with("monorail-out/") && tree.get(*p) != self.work.get(*p))
                    .cloned()
                    .collect();
                cands.sort();
                cands.dedup();
                if cands.is_empty() {
                    return Ok("noop".into());
                }
                let p = cands[pick(*f, cands.len())].clone();
                match tree.get(&p) {
                    Some(c) => {
                        self.env.write_file(&p, c);
                        self.work.insert(p.clone(), c.clone());
                        format!("revert {:?} to its content in commit #{}", p, ci)
                    }
                    None => {
                        std::fs::remove_file(self.env.path(&p)).map_err(|e| e.to_string())?;
                        self.work.remove(&p);
                        self.deleted = true;
                        format!("revert {:?} to absent as in commit #{}", p, ci)
                    }
                }
            }
            Op::CommitAll => {
                self.commit_all()?;
                "commit all".into()
            }
            Op::Recreate(k) => {
                let mut gone: Vec<String> = self
                    .commits
                    .iter()
                    .flat_map(|c| c.1.keys().cloned())
                    .filter(|p| !self.work.contains_key(p) && !is_sentinel(p) && !p.starts_with("monorail-out/"))
                    .collect();
                gone.sort();
                gone.dedup();
                if gone.is_empty() {
                    return Ok("noop".into());
                }
                let p = gone[pick(*k, gone.len())].clone();
                let c = self.fresh(&p);
                self.env.write_file(&p, &c);
                self.work.insert(p.clone(), c);
                format!("recreate {:?}", p)
            }
            Op::HotEdit => {
                let p = self.hot.clone();
                let c = self.fresh(&p);
                self.env.write_file(&p, &c);
                self.work.insert(p.clone(), c);
                format!("edit {:?}", p)
            }
            Op::HotDelete => {
                let p = self.hot.clone();
                if !self.work.contains_key(&p) {
                    return Ok("noop".into());
                }
                std::fs::remove_file(self.env.path(&p)).map_err(|e| e.to_string())?;
                self.work.remove(&p);
                self.deleted = true;
                format!("delete {:?}", p)
            }
            Op::BigWrite(d, slot, size) => {
                let dir = DIRS[pick(*d, DIRS.len())];
                let name = format!("big-{}.bin", pick(*slot, 3));
                let p = if dir.is_empty() { name } else { format!("{}/{}", dir, name) };
                self.counter += 1;
                let c = pseudo_random(self.counter.wrapping_mul(0x9E37_79B9), BIG_SIZES[pick(*size, BIG_SIZES.len())]);
                self.env.write_file(&p, &c);
                let len = c.len();
                self.work.insert(p.clone(), c);
                self.big = true;
                format!("write {} bytes to {:?}", len, p)
            }
            Op::TailEdit(_) | Op::HotTailEdit => {
                let p = match op {
                    Op::HotTailEdit => {
                        if !self.work.contains_key(&self.hot) {
                            return Ok("noop".into());
                        }
                        self.hot.clone()
                    }
                    Op::TailEdit(f) => {
                        // prefer large files
                        let mut e: Vec<String> = self.editable().into_iter().filter(|p| self.work[p].len() > 60_000).collect();
                        if e.is_empty() {
                            e = self.editable();
                        }
                        if e.is_empty() {
                            return Ok("noop".into());
                        }
                        e[pick(*f, e.len())].clone()
                    }
                    _ => unreachable!(),
                };
                self.counter += 1;
                let mut c = self.work[&p].clone();
                let tail = format!("<tail edit #{}>\n", self.counter).into_bytes();
                let keep = c.len().saturating_sub(tail.len());
                c.truncate(keep);
                c.extend_from_slice(&tail);
                self.env.write_file(&p, &c);
                self.work.insert(p.clone(), c);
                self.tail_edit = true;
                format!("edit {:?}", p)
            }
            Op::EditOldMtime(_) | Op::HotEditOldMtime => {
                let p = match op {
                    Op::HotEditOldMtime => self.hot.clone(),
                    Op::EditOldMtime(f) => {
                        let e = self.editable();
                        if e.is_empty() {
                            return Ok("noop".into());
                        }
                        e[pick(*f, e.len())].clone()
                    }
                    _ => unreachable!(),
                };
                let c = self.fresh(&p);
                self.env.write_file(&p, &c);
                self.work.insert(p.clone(), c);
                self.counter += 1;
                let old = std::time::UNIX_EPOCH + std::time::Duration::from_secs(978_307_200 + self.counter as u64);
                let f = std::fs::OpenOptions::new().write(true).open(self.env.path(&p)).map_err(|e| e.to_string())?;
                f.set_modified(old).map_err(|e| e.to_string())?;
                self.old_mtime = true;
                format!("edit (mtime set back) {:?}", p)
            }
            Op::MakeEmpty(_) | Op::HotEmpty => {
                let p = match op {
                    Op::HotEmpty => self.hot.clone(),
                    Op::MakeEmpty(f) => {
                        let e = self.editable();
                        if e.is_empty() {
                            return Ok("noop".into());
                        }
                        e[pick(*f, e.len())].clone()
                    }
                    _ => unreachable!(),
                };
                self.env.write_file(&p, b"");
                self.work.insert(p.clone(), vec![]);
                self.empty_file = true;
                format!("make empty {:?}", p)
            }
            Op::CopyContent(_, d, n) | Op::HotCopy(d, n) => {
                let src = match op {
                    Op::HotCopy(..) => {
                        if !self.work.contains_key(&self.hot) {
                            return Ok("noop".into());
                        }
                        self.hot.clone()
                    }
                    Op::CopyContent(f, ..) => {
                        let e = self.editable();
                        if e.is_empty() {
                            return Ok("noop".into());
                        }
                        e[pick(*f, e.len())].clone()
                    }
                    _ => unreachable!(),
                };
                let dir = DIRS[pick(*d, DIRS.len())];
                let name = NAMES[pick(*n, NAMES.len())];
                let dst = if dir.is_empty() { format!("copy-of-{}", name) } else { format!("{}/copy-of-{}", dir, name) };
                if dst == src {
                    return Ok("noop".into());
                }
                let c = self.work[&src].clone();
                self.env.write_file(&dst, &c);
                self.work.insert(dst.clone(), c);
                self.copied = true;
                format!("copy {:?} to {:?}", src, dst)
            }
            Op::Rewrite(f) => {
                let e = self.editable();
                if e.is_empty() {
                    return Ok("noop".into());
                }
                let p = e[pick(*f, e.len())].clone();
                let c = self.work[&p].clone();
                // make sure the time stamp really differs from what git has cached
                std::thread::sleep(std::time::Duration::from_millis(3));
                self.env.write_file(&p, &c);
                format!("rewrite (same content) {:?}", p)
            }
            Op::BulkCreate(k) => {
                // few files with long names: the pending map (path + checksum per entry) still
                // grows far beyond 64 KiB
                let n = 300 + pick(*k, 120);
                self.counter += 1;
                let batch = self.counter;
                let long = "generated-file-with-a-very-long-name-".repeat(5);
                for i in 0..n {
                    let p = format!("two/bulk-{}/{}{:04}.txt", batch, long, i);
                    let c = format!("bulk {} {}\n", batch, i).into_bytes();
                    self.env.write_file(&p, &c);
                    self.work.insert(p, c);
                }
                format!("create {} files under two/bulk-{}", n, batch)
            }
            Op::BulkSmall(k) => {
                let n = if k % 2 == 0 { 101 + pick(*k, 49) } else { 201 + pick(*k, 49) };
                self.counter += 1;
                let batch = self.counter;
                // every third batch has names made of 2- and 3-byte characters, so that a listing of
                // them is several KiB of multi-byte text (whatever buffer it is read through, some
                // character straddles a boundary)
                let dense = k % 3 == 0;
                for i in 0..n {
                    let p = if dense {
                        format!("two/много-{}/файл点点é-№{:03}-данные.txt", batch, i)
                    } else {
                        format!("two/many-{}/c{:03}.txt", batch, i)
                    };
                    if dense {
                        self.odd_name = true;
                    }
                    let c = format!("many {} {}\n", batch, i).into_bytes();
                    self.env.write_file(&p, &c);
                    self.work.insert(p, c);
                }
                format!("create {} files under two/many-{}", n, batch)
            }
            Op::CreateIgnored(k) => {
                let p = IGNORED[pick(*k, IGNORED.len())].to_string();
                let c = self.fresh(&p);
                self.env.write_file(&p, &c);
                self.ignored_files.insert(p.clone());
                format!("create ignored {:?}", p)
            }
        };
        self.log.push(label.clone());
        Ok(label)
    }

    /// When monorail-out is not git-ignored its files are ordinary working-tree files
    /// that monorail itself rewrites; refresh them from disk.
    pub fn sync_out(&mut self) {
        if self.ignore_out {
            return;
        }
        self.work.retain(|p, _| !p.starts_with("monorail-out/"));
        for p in walk_files(&self.env.repo) {
            if p.starts_with("monorail-out/") {
                if let Ok(b) = std::fs::read(self.env.path(&p)) {
                    self.work.insert(p, b);
                }
            }
        }
    }

    /// Paths whose content differs between two trees.
    pub fn diff(a: &Tree, b: &Tree) -> BTreeSet<String> {
        let mut s = BTreeSet::new();
        for (p, c) in a {
            if b.get(p) != Some(c) {
                s.insert(p.clone());
            }
        }
        for p in b.keys() {
            if !a.contains_key(p) {
                s.insert(p.clone());
            }
        }
        s
    }

    pub fn untracked(&self) -> BTreeSet<String> {
        self.work.keys().filter(|p| !self.index.contains_key(*p)).cloned().collect()
    }

    /// Expected change set. `base` = commit the tracked part is compared against;
    /// `end` = Some(commit) for commit-to-commit, None for the working tree.
    pub fn expected_changes(
        &self,
        base: usize,
        end: Option<usize>,
        pending: &BTreeMap<String, String>,
    ) -> BTreeSet<String> {
        let mut s = match end {
            Some(e) => Self::diff(self.tree(base), self.tree(e)),
            None => {
                let mut d = Self::diff(self.tree(base), &self.work);
                // a path that is neither tracked nor in the base commit shows up through the
                // untracked listing; both routes are covered by the content comparison
                d.extend(self.untracked());
                d
            }
        };
        if end.is_some() {
            s.extend(self.untracked());
        }
        s.retain(|p| {
            match pending.get(p) {
                None => true,
                Some(sum) => {
                    let cur = match self.work.get(p) {
                        Some(c) => bb::sha256_hex(c),
                        None => String::new(),
                    };
                    &cur != sum
                }
            }
        });
        s
    }
}

pub fn walk_files(root: &std::path::Path) -> Vec<String> {
    let mut out = vec![];
    let mut stack = vec![root.to_path_buf()];
    while let Some(d) = stack.pop() {
        if let Ok(rd) = std::fs::read_dir(&d) {
            for e in rd.flatten() {
                let p = e.path();
                let rel = p.strip_prefix(root).unwrap().display().to_string();
                if rel == ".git" {
                    continue;
                }
                if p.is_dir() {
                    stack.push(p);
                } else {
                    out.push(rel);
                }
            }
        }
    }
    out.sort();
    out
}

/// `checkpoint` object of a checkpoint show/update output -> (id, pending map)
pub fn parse_checkpoint(v: &Value) -> Option<(String, BTreeMap<String, String>)> {
    let c = v.get("checkpoint")?;
    let id = c.get("id")?.as_str()?.to_string();
    let mut m = BTreeMap::new();
    if let Some(p) = c.get("pending").and_then(|p| p.as_object()) {
        for (k, v) in p {
            m.insert(k.clone(), v.as_str().unwrap_or("").to_string());
        }
    }
    Some((id, m))
}
