//! C03 (valid layering of every acyclic config) and C09 (cyclic configs are
//! always rejected) - in-process parts. Both share the generators and differ
//! only in which half of the input space they judge.

use crate::gen::{self, CycleMode};
use crate::model::{self, ConfigSpec};
use crate::props::c01;
use crate::runner::*;
use proptest::collection::vec;
use proptest::prelude::*;
use serde::{Deserialize, Serialize};
use serde_json::{json, Value};
use std::collections::BTreeSet;

#[derive(Debug, Clone, Copy, PartialEq, Eq)]
pub enum Side {
    Acyclic, // C03
    Cyclic,  // C09
}

// ---------------------------------------------------------------------------
// raw graphs

#[derive(Debug, Clone, Serialize, Deserialize)]
pub struct DagCase {
    pub n: usize,
    pub adj: Vec<Vec<usize>>,
    pub roots: Vec<usize>,
}

/// Decode (edge mask, root mask) over n nodes; edges exclude self loops.
pub fn dag_case(n: usize, edge_mask: u64, root_mask: u64) -> DagCase {
    let mut adj = vec![vec![]; n];
    let mut bit = 0;
    for i in 0..n {
        for j in 0..n {
            if i != j {
                if edge_mask >> bit & 1 == 1 {
                    adj[i].push(j);
                }
                bit += 1;
            }
        }
    }
    let roots = (0..n).filter(|r| root_mask >> r & 1 == 1).collect();
    DagCase { n, adj, roots }
}

pub fn check_dag(case: &DagCase, side: Side) -> CheckResult {
    let cyclic = model::has_cycle_reachable(&case.adj, &case.roots);
    let expect = model::closure(&case.adj, &case.roots);
    let edges: usize = expect.iter().map(|&n| case.adj[n].len()).sum();
    match (side, cyclic) {
        (Side::Acyclic, true) => return Ok(CaseInfo::new(false).class("cyclic(C09)")),
        (Side::Cyclic, false) => return Ok(CaseInfo::new(false).class("acyclic(C03)")),
        _ => {}
    }
    let res = std::panic::catch_unwind(|| monorail::verif::dag_groups(case.n, &case.adj, &case.roots));
    let res = match res {
        Ok(r) => r,
        Err(_) => {
            return viol(
                if side == Side::Acyclic { "c03.panic" } else { "c09.panic" },
                "grouping panicked".into(),
            )
        }
    };
    match side {
        Side::Acyclic => {
            let groups = match res {
                Ok(g) => g,
                Err(e) => {
                    return viol(
                        "c03.rejected",
                        format!("acyclic graph rejected: {}", e),
                    )
                }
            };
            if let Err(m) = model::valid_layering(&groups, &expect, &case.adj) {
                return viol_obs("c03.layering", m, json!({ "groups": groups }));
            }
            let diamond = has_diamond(&case.adj, &expect);
            Ok(CaseInfo::new(edges > 0)
                .class_if(diamond, "diamond")
                .class_if(expect.len() < case.n, "partial-visibility")
                .class(&format!("n={}", case.n)))
        }
        Side::Cyclic => match res {
            Ok(groups) => viol_obs(
                "c09.accepted",
                "graph with a cycle reachable from the roots yielded groups".into(),
                json!({ "groups": groups }),
            ),
            Err(e) => {
                if !e.to_lowercase().contains("cycle") {
                    return viol("c09.error.kind", format!("rejected, but not as a cycle: {}", e));
                }
                let on_cycle_first = case.roots.first().map(|&r| model::closure(&case.adj, &case.adj[r]).contains(&r)).unwrap_or(false);
                Ok(CaseInfo::new(true)
                    .class_if(!on_cycle_first, "root-not-on-cycle")
                    .class_if(expect.len() < case.n, "partial-visibility")
                    .class(&format!("n={}", case.n)))
            }
        },
    }
}

fn has_diamond(adj: &[Vec<usize>], within: &BTreeSet<usize>) -> bool {
    // some node reachable from a node through two different direct successors
    for &a in within {
        if adj[a].len() < 2 {
            continue;
        }
        let mut seen = BTreeSet::new();
        for &b in &adj[a] {
            let cl = model::closure(adj, &[b]);
            for c in cl {
                if !seen.insert(c) {
                    return true;
                }
            }
        }
    }
    false
}

pub fn random_dag(max_n: usize, cyclic: bool) -> impl Strategy<Value = DagCase> {
    (2usize..=max_n)
        .prop_flat_map(move |n| {
            (
                Just(n),
                vec((any::<u16>(), any::<u16>(), 0u8..4), 0..=(3 * n)),
                vec(any::<u16>(), 1..=3),
                vec(any::<u16>(), n),
                proptest::option::of((any::<u16>(), any::<u16>())),
            )
        })
        .prop_map(move |(n, raw_edges, roots, perm, back)| {
            // hidden order = perm ranks; edges from later to earlier
            let mut order: Vec<usize> = (0..n).collect();
            order.sort_by_key(|&i| (perm[i], i));
            let mut adj = vec![BTreeSet::new(); n];
            for (a, b, _) in raw_edges {
                let x = pick(a, n);
                let y = pick(b, n);
                if x == y {
                    continue;
                }
                let (hi, lo) = if x > y { (x, y) } else { (y, x) };
                adj[order[hi]].insert(order[lo]);
            }
            if cyclic {
                let (a, b) = back.unwrap_or((0, 0));
                let hi = 1 + pick(a, n - 1);
                let lo = pick(b, hi);
                // ensure a path hi -> lo exists then close it
                let tmp: Vec<Vec<usize>> = adj.iter().map(|s| s.iter().copied().collect()).collect();
                if !model::closure(&tmp, &[order[hi]]).contains(&order[lo]) {
                    adj[order[hi]].insert(order[lo]);
                }
                adj[order[lo]].insert(order[hi]);
            }
            let adj: Vec<Vec<usize>> = adj.into_iter().map(|s| s.into_iter().collect()).collect();
            let mut rs: Vec<usize> = roots.into_iter().map(|r| pick(r, n)).collect();
            rs.sort();
            rs.dedup();
            DagCase { n, adj, roots: rs }
        })
}

// ---------------------------------------------------------------------------
// configurations through Index

#[derive(Debug, Clone, Serialize, Deserialize)]
pub struct CfgCase {
    pub config: ConfigSpec,
    pub visible: Vec<String>,
    pub changes: Vec<String>,
}

pub fn cfg_strategy(max_targets: usize, mode: CycleMode) -> impl Strategy<Value = CfgCase> {
    (
        gen::raw_config(max_targets, 3, 1),
        vec(any::<u16>(), 0..=4),
        vec((0u8..9, any::<u16>(), any::<u16>()), 0..=8),
        any::<bool>(),
    )
        .prop_map(move |(raw, vis, rc, all_visible)| {
            let config = gen::build_config(&raw, mode);
            let n = config.targets.len();
            let mut visible: Vec<String> = if all_visible || vis.is_empty() {
                config.target_paths()
            } else {
                vis.iter().map(|&v| config.targets[pick(v, n)].path.clone()).collect()
            };
            visible.sort();
            visible.dedup();
            let mut changes: Vec<String> = rc
                .into_iter()
                .map(|(k, a, b)| gen::change_path(&config, k, a, b))
                .collect();
            changes.sort();
            changes.dedup();
            CfgCase {
                config,
                visible,
                changes,
            }
        })
}

/// A small generated configuration embedded in 20-199 independent filler targets.
pub fn cfg_strategy_big(mode: CycleMode) -> impl Strategy<Value = CfgCase> {
    (cfg_strategy(8, mode), gen::filler_count()).prop_map(|(c, (n_fill, pos))| {
        let before = pick(pos, n_fill + 1);
        // mostly at the very end or the very beginning of the declaration order
        let before = match pos % 4 {
            0 => n_fill,
            1 => 0,
            _ => before,
        };
        CfgCase {
            config: gen::embed_in_fillers(&c.config, n_fill, before),
            visible: c.visible,
            changes: c.changes,
        }
    })
}

fn to_idx(cfg: &ConfigSpec, groups: &[Vec<String>]) -> Result<Vec<Vec<usize>>, String> {
    let idx = gen::index_of(cfg);
    groups
        .iter()
        .map(|g| {
            g.iter()
                .map(|l| idx.get(l).copied().ok_or(format!("unknown target {:?} in groups", l)))
                .collect()
        })
        .collect()
}

fn is_graph_error(e: &str) -> bool {
    serde_json::from_str::<Value>(e)
        .ok()
        .and_then(|v| v.get("type").and_then(|t| t.as_str()).map(|s| s == "graph"))
        .unwrap_or(false)
        || e.to_lowercase().contains("cycle")
}

/// Judge groups (as labels) against the model for an expected node set.
pub fn judge_groups(
    cfg: &ConfigSpec,
    groups: &[Vec<String>],
    expect: &BTreeSet<usize>,
    what: &str,
) -> Result<(), CheckError> {
    let adj = model::dep_adj(cfg);
    let g = to_idx(cfg, groups).map_err(|m| Violation::new("c03.layering.unknown", m))?;
    if let Err(m) = model::valid_layering(&g, expect, &adj) {
        return viol_obs(
            "c03.layering",
            format!("{}: {}", what, m),
            json!({ "groups": groups }),
        );
    }
    Ok(())
}

pub fn check_cfg(case: &CfgCase, side: Side) -> CheckResult {
    let cfg = &case.config;
    let n = cfg.targets.len();
    let adj = model::dep_adj(cfg);
    let idx = gen::index_of(cfg);
    let roots: Vec<usize> = case.visible.iter().filter_map(|v| idx.get(v).copied()).collect();
    let all: Vec<usize> = (0..n).collect();
    let cyclic_vis = model::has_cycle_reachable(&adj, &roots);
    let cyclic_all = model::has_cycle_reachable(&adj, &all);
    let cfg_json = cfg.to_json();
    let uni = crate::scratch::universe();
    let nested = cfg
        .targets
        .iter()
        .any(|t| cfg.targets.iter().any(|u| u.path != t.path && model::inside(&t.path, &u.path)));
    let edges: usize = adj.iter().map(|a| a.len()).sum();
    let mut info = CaseInfo::new(false);
    let pv = std::panic::AssertUnwindSafe(());
    let _ = pv;

    // 1. Index with the visible subset (target show -g / run -t --deps)
    let judged_vis = match (side, cyclic_vis) {
        (Side::Acyclic, false) | (Side::Cyclic, true) => true,
        _ => false,
    };
    if judged_vis {
        let res = std::panic::catch_unwind(|| monorail::verif::index_groups(&cfg_json, &case.visible, uni));
        let res = match res {
            Ok(r) => r,
            Err(_) => return viol(if side == Side::Acyclic { "c03.panic" } else { "c09.panic" }, "index/grouping panicked".into()),
        };
        match side {
            Side::Acyclic => {
                let groups = res.map_err(|e| {
                    Violation::new(
                        "c03.rejected",
                        format!("acyclic configuration rejected (visible {:?}): {}", case.visible, e),
                    )
                })?;
                let expect = model::closure(&adj, &roots);
                judge_groups(cfg, &groups, &expect, "index groups")?;
                info.nontrivial |= edges > 0;
                info = info
                    .class_if(has_diamond(&adj, &expect), "diamond")
                    .class_if(expect.len() < n, "partial-visibility")
                    .class_if(nested, "nested");
            }
            Side::Cyclic => match res {
                Ok(groups) => {
                    return viol_obs(
                        "c09.accepted",
                        format!("cycle reachable from {:?} but groups were produced", case.visible),
                        json!({ "groups": groups }),
                    )
                }
                Err(e) => {
                    if !is_graph_error(&e) {
                        return viol("c09.error.kind", format!("rejected, but not with a graph error: {}", e));
                    }
                    info.nontrivial = true;
                    info = info
                        .class_if(roots.len() < n, "partial-visibility")
                        .class_if(nested, "nested");
                }
            },
        }
    } else {
        info = info.class(if side == Side::Acyclic { "visible-cyclic(C09)" } else { "visible-acyclic(C03)" });
    }

    // 2. analyze with all targets visible: without changes (all targets) and with
    //    changes (groups pruned to the changed targets)
    let judged_all = match (side, cyclic_all) {
        (Side::Acyclic, false) | (Side::Cyclic, true) => true,
        _ => false,
    };
    if judged_all {
        for changes in [None, Some(case.changes.clone())] {
            let with_changes = changes.is_some();
            let res = std::panic::catch_unwind(|| {
                monorail::verif::analyze(&cfg_json, changes.clone(), false, false, true, uni)
            });
            let res = match res {
                Ok(r) => r,
                Err(_) => return viol(if side == Side::Acyclic { "c03.panic" } else { "c09.panic" }, "analyze panicked".into()),
            };
            match side {
                Side::Acyclic => {
                    let out = res.map_err(|e| {
                        Violation::new("c03.rejected", format!("acyclic configuration rejected by analyze: {}", e))
                    })?;
                    let v: Value = serde_json::from_str(&out).map_err(|e| Violation::new("c03.output", e.to_string()))?;
                    let p = c01::parse_analyze(&v).map_err(|e| Violation::new("c03.output", e))?;
                    let groups = p.groups.ok_or_else(|| Violation::new("c03.output", "no target_groups".into()))?;
                    let expect: BTreeSet<usize> = if with_changes {
                        p.targets.iter().filter_map(|t| idx.get(t).copied()).collect()
                    } else {
                        all.iter().copied().collect()
                    };
                    if !with_changes {
                        let mut want = cfg.target_paths();
                        want.sort();
                        if p.targets != want {
                            return viol("c03.analyze.all", "analyze without changes does not list every target".into());
                        }
                    }
                    judge_groups(cfg, &groups, &expect, if with_changes { "pruned analyze groups" } else { "analyze groups" })?;
                    if with_changes && !expect.is_empty() && expect.len() < n {
                        info = info.class("pruned");
                    }
                }
                Side::Cyclic => match res {
                    Ok(out) => {
                        return viol_obs("c09.accepted", "cyclic configuration yielded analyze groups".into(), json!({ "output": out }))
                    }
                    Err(e) => {
                        if !is_graph_error(&e) {
                            return viol("c09.error.kind", format!("rejected, but not with a graph error: {}", e));
                        }
                    }
                },
            }
        }
    }
    if side == Side::Cyclic {
        // classify the cycle
        let two = (0..n).any(|i| adj[i].iter().any(|&j| adj[j].contains(&i)));
        let nesting = cfg.targets.iter().any(|t| {
            cfg.targets.iter().any(|m| {
                m.path != t.path && model::inside(&m.path, &t.path) && t.uses.iter().any(|u| model::inside(u, &m.path))
            })
        });
        info = info.class(if two { "2-cycle" } else { "k-cycle" }).class_if(nesting, "nesting-cycle");
    }
    Ok(info)
}

fn run_groups(doc: &Value) -> Result<Vec<Vec<Vec<String>>>, String> {
    let run = crate::bb::parse_run(doc)?;
    Ok(run.results.iter().map(|r| r.1.iter().map(|g| g.keys().cloned().collect()).collect()).collect())
}

/// The same judgements through the real CLI on a generated repository.
pub fn check_cli(case: &CfgCase, w: usize, side: Side) -> CheckResult {
    use crate::bb::{self, Behavior, Env};
    let cfg = &case.config;
    let n = cfg.targets.len();
    let adj = model::dep_adj(cfg);
    let idx = gen::index_of(cfg);
    let all: Vec<usize> = (0..n).collect();
    let all_set: BTreeSet<usize> = all.iter().copied().collect();
    let roots: Vec<usize> = case.visible.iter().filter_map(|v| idx.get(v).copied()).collect();
    let cyclic_all = model::has_cycle_reachable(&adj, &all);
    let cyclic_vis = model::has_cycle_reachable(&adj, &roots);
    let mut env = Env::new(w);
    env.install_config(cfg);
    let mut beh = std::collections::BTreeMap::new();
    for t in &cfg.targets {
        beh.insert(("c0".to_string(), t.path.clone()), Behavior::default());
    }
    bb::install_simple(&env, cfg, &beh);
    let mut deps_args: Vec<String> = vec!["run".into(), "-c".into(), "c0".into(), "-t".into()];
    deps_args.extend(case.visible.iter().cloned());
    deps_args.push("--deps".into());
    let deps_argv: Vec<&str> = deps_args.iter().map(|s| s.as_str()).collect();
    let mut info = CaseInfo::new(false);
    match side {
        Side::Cyclic => {
            let mut apis: Vec<(&str, Vec<&str>)> = vec![];
            if cyclic_all {
                apis.push(("target show -g", vec!["target", "show", "-g"]));
                apis.push(("analyze --target-groups", vec!["analyze", "--target-groups"]));
                apis.push(("run", vec!["run", "-c", "c0"]));
            }
            if cyclic_vis && !case.visible.is_empty() {
                apis.push(("run -t --deps", deps_argv.clone()));
            }
            if apis.is_empty() {
                return Ok(CaseInfo::new(false).class("acyclic(C03)"));
            }
            // second phase: the same rejection is owed when a checkpoint exists and nothing has changed since
            let mut phase2: Vec<(&str, Vec<&str>)> = vec![];
            if cyclic_all {
                phase2.push(("analyze --target-groups (checkpoint, clean tree)", vec!["analyze", "--target-groups"]));
                phase2.push(("run (checkpoint, clean tree)", vec!["run", "-c", "c0"]));
            }
            let first = apis.len();
            apis.extend(phase2);
            for (k, (name, args)) in apis.into_iter().enumerate() {
                if k == first {
                    if let Err(e) = bb::commit_all_and_checkpoint(&mut env) {
                        return inconclusive(e);
                    }
                }
                env.clear_traces();
                let o = env.mr(&args);
                if o.timed_out {
                    return viol("c09.cli.hang", format!("`{}` did not terminate on a cyclic configuration", name));
                }
                if o.code == Some(0) {
                    return viol_obs("c09.cli.accepted", format!("`{}` succeeded on a configuration with a reachable cycle", name), o.brief());
                }
                if o.signal.is_some() || o.code.is_none() {
                    return viol_obs("c09.cli.crash", format!("`{}` crashed on a cyclic configuration", name), o.brief());
                }
                let ty = o.error_type();
                let msg = o.error().and_then(|e| e.get("message").and_then(|m| m.as_str()).map(String::from)).unwrap_or_default();
                if ty != "graph" && !msg.to_lowercase().contains("cycle") {
                    return viol_obs("c09.cli.error.kind", format!("`{}` failed, but not with a graph-cycle error", name), o.brief());
                }
                if !env.traces().is_empty() {
                    return viol("c09.cli.executed", format!("`{}` rejected the cyclic configuration but started an executable", name));
                }
            }
            info.nontrivial = true;
            info = info.class_if(!cyclic_all && cyclic_vis, "cycle-only-via-subset");
        }
        Side::Acyclic => {
            if cyclic_all {
                return Ok(CaseInfo::new(false).class("cyclic(C09)"));
            }
            let edges: usize = adj.iter().map(|a| a.len()).sum();
            let get_groups = |o: &bb::MrOut, what: &str| -> Result<Vec<Vec<String>>, CheckError> {
                let Some(v) = o.json().filter(|_| o.ok()) else {
                    return viol_obs("c03.cli.rejected", format!("`{}` failed on an acyclic configuration", what), o.brief());
                };
                let g = v.get("target_groups").and_then(|g| g.as_array()).ok_or_else(|| Violation::new("c03.output", format!("`{}` printed no target_groups", what)))?;
                Ok(g.iter().map(|x| x.as_array().map(|a| a.iter().map(|s| s.as_str().unwrap_or("").to_string()).collect()).unwrap_or_default()).collect())
            };
            let o = env.mr(&["target", "show", "-g"]);
            judge_groups(cfg, &get_groups(&o, "target show -g")?, &all_set, "target show -g")?;
            // the display options of `target show` (commands, argmaps) do not change what is grouped;
            // one target is given an argmap file so that the others differ from it in that respect
            if let Some(t0) = cfg.targets.first() {
                env.write_file(&format!("{}/base.json", t0.argmaps_dir()), b"{\"c0\": [\"--flag\"]}");
            }
            let o = env.mr(&["target", "show", "-g", "-m", "-c"]);
            judge_groups(cfg, &get_groups(&o, "target show -g -m -c")?, &all_set, "target show -g -m -c")?;
            let o = env.mr(&["analyze", "--target-groups"]);
            judge_groups(cfg, &get_groups(&o, "analyze --target-groups")?, &all_set, "analyze --target-groups (no checkpoint)")?;
            let o = env.mr(&["run", "-c", "c0"]);
            if o.json().map(|d| d.get("failed") == Some(&Value::Bool(true))).unwrap_or(false) {
                // the graph was accepted; a command of the run failed (nothing this property speaks about)
                return inconclusive(format!("a task of the run failed: {}", o.brief()));
            }
            let Some(doc) = o.json().filter(|_| o.ok()) else {
                return viol_obs("c03.cli.rejected", "`run` failed on an acyclic configuration".into(), o.brief());
            };
            for g in run_groups(&doc).map_err(|e| Violation::new("c03.output", e))? {
                judge_groups(cfg, &g, &all_set, "run (no checkpoint)")?;
            }
            if !case.visible.is_empty() {
                let o = env.mr(&deps_argv);
                if o.json().map(|d| d.get("failed") == Some(&Value::Bool(true))).unwrap_or(false) {
                    // the graph was accepted; a command of the run failed (nothing this property speaks about)
                    return inconclusive(format!("a task of the run failed: {}", o.brief()));
                }
                let Some(doc) = o.json().filter(|_| o.ok()) else {
                    return viol_obs("c03.cli.rejected", "`run -t --deps` failed on an acyclic configuration".into(), o.brief());
                };
                let expect = model::closure(&adj, &roots);
                for g in run_groups(&doc).map_err(|e| Violation::new("c03.output", e))? {
                    judge_groups(cfg, &g, &expect, "run -t --deps")?;
                }
                info = info.class_if(expect.len() < n, "partial-visibility");
            }
            // with a checkpoint: groups pruned to the changed targets
            if let Err(e) = bb::commit_all_and_checkpoint(&mut env) {
                return inconclusive(e);
            }
            let created = bb::create_files(&env, &case.changes, true);
            let o = env.mr(&["analyze", "--target-groups"]);
            let Some(v) = o.json().filter(|_| o.ok()) else {
                return viol_obs("c03.cli.rejected", "`analyze --target-groups` with a checkpoint failed".into(), o.brief());
            };
            let p = c01::parse_analyze(&v).map_err(|e| Violation::new("c03.output", e))?;
            let expect: BTreeSet<usize> = p.targets.iter().filter_map(|t| idx.get(t).copied()).collect();
            judge_groups(cfg, &p.groups.clone().unwrap_or_default(), &expect, "analyze --target-groups (pruned)")?;
            let o = env.mr(&["run", "-c", "c0"]);
            if o.json().map(|d| d.get("failed") == Some(&Value::Bool(true))).unwrap_or(false) {
                // the graph was accepted; a command of the run failed (nothing this property speaks about)
                return inconclusive(format!("a task of the run failed: {}", o.brief()));
            }
            let Some(doc) = o.json().filter(|_| o.ok()) else {
                return viol_obs("c03.cli.rejected", "`run` with a checkpoint failed".into(), o.brief());
            };
            for g in run_groups(&doc).map_err(|e| Violation::new("c03.output", e))? {
                judge_groups(cfg, &g, &expect, "run (changed targets)")?;
            }
            // explicitly named targets with --deps: still their whole dependency closure, whatever
            // the checkpoint says has changed
            if !case.visible.is_empty() {
                let o = env.mr(&deps_argv);
                if o.json().map(|d| d.get("failed") == Some(&Value::Bool(true))).unwrap_or(false) {
                    // the graph was accepted; a command of the run failed (nothing this property speaks about)
                    return inconclusive(format!("a task of the run failed: {}", o.brief()));
                }
                let Some(doc) = o.json().filter(|_| o.ok()) else {
                    return viol_obs("c03.cli.rejected", "`run -t --deps` with a checkpoint failed on an acyclic configuration".into(), o.brief());
                };
                let closure = model::closure(&adj, &roots);
                for g in run_groups(&doc).map_err(|e| Violation::new("c03.output", e))? {
                    judge_groups(cfg, &g, &closure, "run -t --deps (checkpoint present)")?;
                }
            }
            info.nontrivial = edges > 0;
            info = info.class_if(!created.is_empty() && !expect.is_empty() && expect.len() < n, "pruned");
        }
    }
    info.invocations = env.invocations;
    Ok(info)
}

pub fn golden_c03() -> Vec<CfgCase> {
    let mk = |ts: Vec<(&str, Vec<&str>)>| {
        let config = ConfigSpec {
            targets: ts
                .into_iter()
                .map(|(p, u)| {
                    let mut t = model::TargetSpec::new(p);
                    t.uses = u.into_iter().map(String::from).collect();
                    t
                })
                .collect(),
            ..Default::default()
        };
        CfgCase {
            visible: config.target_paths(),
            config,
            changes: vec!["a/f".into()],
        }
    };
    vec![
        // diamond declared a,b,c (falsely reported as a cycle by a BFS `active` set)
        mk(vec![("a", vec!["ab", "lib"]), ("ab", vec!["lib"]), ("lib", vec![])]),
        mk(vec![("lib", vec![]), ("ab", vec!["lib"]), ("a", vec!["ab", "lib"])]),
        // byte-prefix siblings are independent
        mk(vec![("app", vec!["app2/f"]), ("app2", vec![])]),
    ]
}

pub fn run_c03(ctx: &mut Ctx) {
    ctx.hang_is_violation = true;
    ctx.hang_limit = std::time::Duration::from_secs(30);
    ctx.rule = "raw graphs: every labelled digraph without self loops on n<=4 (quick) / n<=5 (thorough) x every non-empty \
root subset through Dag (judged when no cycle is reachable from the roots), plus random DAGs up to 40 nodes; configs: acyclic-by-construction \
configurations (nesting, diamonds, prefix siblings, any declaration order) x visible subset x changed subset through Index/analyze. \
oracle: valid_layering(groups, requested set, dep). non-trivial = at least one dependency edge among the requested targets; distinct by SHA-256 of the case"
        .to_string();
    ctx.assumptions = vec!["any valid layering is accepted, not only Kahn's".into()];
    ctx.drive_all("golden", golden_c03(), "golden regression cases", |c, _| check_cfg(c, Side::Acyclic));
    exhaustive(ctx, Side::Acyclic);
    exhaustive_through_index(ctx, Side::Acyclic);
    let n = ctx.n(20_000, 500_000);
    ctx.drive("dag-random", || random_dag(40, false), n / 2, |c, _| check_dag(c, Side::Acyclic));
    ctx.drive("config", || cfg_strategy(12, CycleMode::Acyclic), n / 2, |c, _| check_cfg(c, Side::Acyclic));
    ctx.drive("config-wide", || cfg_strategy(40, CycleMode::Acyclic), n / 10, |c, _| check_cfg(c, Side::Acyclic));
    ctx.drive("config-any", || cfg_strategy(8, CycleMode::Any), n / 10, |c, _| check_cfg(c, Side::Acyclic));
    ctx.drive("config-embedded-in-64-200-targets", || cfg_strategy_big(CycleMode::Acyclic), n / 40, |c, _| check_cfg(c, Side::Acyclic));
    ctx.drive_all("golden-cli", golden_c03(), "golden regression cases (CLI)", |c, w| check_cli(c, w, Side::Acyclic));
    let n2 = ctx.n(100, 2000);
    ctx.drive("cli", || cfg_strategy(8, CycleMode::Acyclic), n2, |c, w| check_cli(c, w, Side::Acyclic));
}

pub fn run_c09(ctx: &mut Ctx) {
    ctx.hang_is_violation = true;
    ctx.hang_limit = std::time::Duration::from_secs(30);
    ctx.rule = "raw graphs: every labelled digraph without self loops on n<=4 (quick) / n<=5 (thorough) x every non-empty \
root subset (judged when a cycle is reachable from the roots), plus random cyclic graphs up to 40 nodes; configs: an acyclic construction \
plus one forced back edge (2-cycles, k-cycles, cycles through nesting) in any declaration order, all targets visible or a subset. \
oracle: error (graph/cycle), never groups, no panic, no hang (30 s watchdog). non-trivial = every judged case (a cycle is reachable); distinct by SHA-256"
        .to_string();
    ctx.assumptions = vec!["error wording is not judged beyond naming a cycle / type graph".into()];
    exhaustive(ctx, Side::Cyclic);
    exhaustive_through_index(ctx, Side::Cyclic);
    let n = ctx.n(10_000, 300_000);
    ctx.drive("dag-random", || random_dag(40, true), n / 2, |c, _| check_dag(c, Side::Cyclic));
    ctx.drive("config", || cfg_strategy(10, CycleMode::ForcedCycle), n / 2, |c, _| check_cfg(c, Side::Cyclic));
    ctx.drive("config-any", || cfg_strategy(8, CycleMode::Any), n / 5, |c, _| check_cfg(c, Side::Cyclic));
    ctx.drive("config-embedded-in-64-200-targets", || cfg_strategy_big(CycleMode::ForcedCycle), n / 40, |c, _| check_cfg(c, Side::Cyclic));
    let n2 = ctx.n(80, 1500);
    ctx.drive("cli", || cfg_strategy(8, CycleMode::ForcedCycle), n2, |c, w| check_cli(c, w, Side::Cyclic));
}

fn exhaustive(ctx: &Ctx, side: Side) {
    let max_n = if ctx.thorough() { 5 } else { 4 };
    for n in 1..=max_n {
        let ebits = n * (n - 1);
        let roots = (1usize << n) - 1;
        let total = (1usize << ebits) * roots;
        ctx.drive_range(
            &format!("dag-exhaustive-n{}", n),
            total,
            &format!("all digraphs without self loops on {} labelled nodes x all non-empty root subsets", n),
            |i| dag_case(n, (i / roots) as u64, (i % roots + 1) as u64),
            |c, _| check_dag(c, side),
        );
    }
}

/// Every digraph on n <= 4 nodes as a configuration (flat targets, one `uses` entry per edge),
/// every non-empty set of named roots: the same graphs as `dag-exhaustive`, but through
/// `Index::new` - whatever it does to the edges it was given - and `analyze`.
fn exhaustive_through_index(ctx: &Ctx, side: Side) {
    const NAMES: [&str; 4] = ["a", "lib", "app2", "é"];
    for n in 2..=4usize {
        let ebits = n * (n - 1);
        let roots = (1usize << n) - 1;
        let total = (1usize << ebits) * roots;
        ctx.drive_range(
            &format!("config-exhaustive-n{}", n),
            total,
            &format!("all digraphs without self loops on {} flat targets (one uses entry per edge) x all non-empty sets of named targets, through the index", n),
            |i| {
                let d = dag_case(n, (i / roots) as u64, (i % roots + 1) as u64);
                let mut targets = vec![];
                for k in 0..n {
                    let mut t = model::TargetSpec::new(NAMES[k]);
                    t.uses = d.adj[k].iter().map(|&j| NAMES[j].to_string()).collect();
                    targets.push(t);
                }
                CfgCase {
                    config: ConfigSpec { targets, ..Default::default() },
                    visible: d.roots.iter().map(|&r| NAMES[r].to_string()).collect(),
                    changes: vec![],
                }
            },
            |c, _| check_cfg(c, side),
        );
    }
}

pub fn replay(ctx: &Ctx, label: &str, case: Value, side: Side) -> Result<(), String> {
    if label.starts_with("dag") {
        let c: DagCase = serde_json::from_value(case).map_err(|e| e.to_string())?;
        let r = check_dag(&c, side);
        ctx.replay_one(label, &c, r);
    } else if label.contains("cli") {
        let c: CfgCase = serde_json::from_value(case).map_err(|e| e.to_string())?;
        let r = check_cli(&c, 0, side);
        ctx.replay_one(label, &c, r);
    } else {
        let c: CfgCase = serde_json::from_value(case).map_err(|e| e.to_string())?;
        let r = check_cfg(&c, side);
        ctx.replay_one(label, &c, r);
    }
    Ok(())
}
