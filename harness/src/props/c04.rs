//! C04 - commands run in dependency order under every schedule.

use crate::bb::{self, Behavior, Env};
use crate::gen::{self, CycleMode};
use crate::model::{self, ConfigSpec};
use crate::runner::*;
use proptest::collection::vec;
use proptest::prelude::*;
use serde::{Deserialize, Serialize};
use serde_json::{json, Value};
use std::collections::{BTreeMap, BTreeSet};

#[derive(Debug, Clone, Serialize, Deserialize, PartialEq)]
pub enum Mode {
    All,
    Changed(Vec<String>), // targets that get a new untracked file
    Deps(Vec<String>),
}

#[derive(Debug, Clone, Serialize, Deserialize)]
pub struct Case {
    pub config: ConfigSpec,
    pub mode: Mode,
    /// sequence arguments (-s), in order
    pub seq_args: Vec<String>,
    /// command arguments (-c), in order
    pub cmd_args: Vec<String>,
    /// sleep per (command, target), ms
    pub sleeps: Vec<(String, String, u64)>,
    pub timing: String,
    /// (command, target) pairs for which the target does not define the command (no file): such a
    /// target starts nothing, but the targets around it still depend on each other through it
    #[serde(default)]
    pub undefined: Vec<(String, String)>,
}

pub fn levels(cfg: &ConfigSpec) -> Vec<usize> {
    // longest path to a leaf dependency
    let adj = model::dep_adj(cfg);
    let n = adj.len();
    let mut memo = vec![usize::MAX; n];
    fn rec(i: usize, adj: &[Vec<usize>], memo: &mut Vec<usize>, depth: usize) -> usize {
        if memo[i] != usize::MAX {
            return memo[i];
        }
        if depth > adj.len() {
            return 0;
        }
        let l = adj[i].iter().map(|&j| 1 + rec(j, adj, memo, depth + 1)).max().unwrap_or(0);
        memo[i] = l;
        l
    }
    (0..n).map(|i| rec(i, &adj, &mut memo, 0)).collect()
}

pub fn strategy() -> impl Strategy<Value = Case> {
    (
        gen::raw_config(10, 3, 1),
        0u8..3,
        vec(any::<u16>(), 1..=3),
        // mostly 1-4 commands; sometimes 8-12 (more than any small internal batch of planning work)
        prop_oneof![5 => 1usize..=4, 1 => 8usize..=12],
        any::<u16>(),
        // mostly millisecond-scale run times; one case in sixteen has dependencies that take
        // 3.3 s, during which nothing in their group finishes
        prop_oneof![14 => 0u8..4, 1 => Just(4u8), 1 => Just(5u8)],
        vec(0u64..80, 40),
    )
        .prop_map(|(raw, mode_k, picks, ncmd, split, timing_k, rnd)| {
            // (target paths may end in a slash; helper traces are keyed by working directory, which
            // never does: the look-ups below strip it)
            let mut config = gen::build_config(&raw, CycleMode::Acyclic);
            let n = config.targets.len();
            let names: Vec<String> = (0..ncmd).map(|i| format!("c{}", i)).collect();
            // split commands: a prefix goes into one or two sequences, the rest to -c
            let nseq = pick(split, ncmd + 1);
            let mut seq_args = vec![];
            if nseq > 0 {
                // one to four sequences, given in an order that is neither the alphabetical one
                // nor the one of their declaration
                let seq_names = ["s-zeta", "s0", "s-mid", "a1"];
                let parts = 1 + pick(split.rotate_left(7), nseq.min(4));
                let mut start = 0;
                for k in 0..parts {
                    let end = if k + 1 == parts { nseq } else { start + (nseq - start) / (parts - k) };
                    let end = end.max(start + 1).min(nseq);
                    config.sequences.insert(seq_names[k].into(), names[start..end].to_vec());
                    seq_args.push(seq_names[k].to_string());
                    start = end;
                    if start >= nseq {
                        break;
                    }
                }
            }
            let mut cmd_args = names[nseq..].to_vec();
            // a command may be asked for more than once (a step shared by two sequences, or a
            // sequence step given again with -c); it then runs at each of its places
            if ncmd >= 2 && split % 3 == 0 {
                let again = names[pick(split.rotate_left(3), ncmd - 1)].clone();
                cmd_args.push(again);
            }
            let mut chosen: Vec<String> = picks.iter().map(|&p| config.targets[pick(p, n)].path.clone()).collect();
            chosen.sort();
            chosen.dedup();
            let mode = match mode_k {
                0 => Mode::All,
                1 => Mode::Changed(chosen),
                _ => Mode::Deps(chosen),
            };
            let lv = levels(&config);
            let maxl = lv.iter().copied().max().unwrap_or(0);
            let timing = ["zero", "random", "deps-slower", "earlier-command-slower", "dependencies-take-seconds", "dependencies-detach-their-output"][timing_k as usize];
            let mut sleeps = vec![];
            let mut k = 0;
            for (ci, c) in names.iter().enumerate() {
                for (ti, t) in config.targets.iter().enumerate() {
                    let ms = match timing_k {
                        0 => 0,
                        1 => {
                            k += 1;
                            rnd[k % rnd.len()]
                        }
                        // dependencies (low level) sleep longer than their dependents
                        2 => 12 * (maxl - lv[ti]) as u64,
                        4 => {
                            if lv[ti] == 0 && ci == 0 {
                                3300
                            } else {
                                0
                            }
                        }
                        // the dependencies close their stdout and stderr at once and go on for 1.4-2.8 s
                        5 => {
                            if lv[ti] == 0 && ci == 0 {
                                1400 + (split as u64 % 1400)
                            } else {
                                0
                            }
                        }
                        _ => 15 * (ncmd - ci) as u64,
                    };
                    sleeps.push((c.clone(), t.path.clone(), ms));
                }
            }
            // in a third of the cases the targets in the middle of the dependency order (neither a
            // leaf dependency nor a top dependent) do not define some of the commands
            let mut undefined = vec![];
            if split % 3 == 1 && maxl >= 2 {
                for (ci, c) in names.iter().enumerate() {
                    for (ti, t) in config.targets.iter().enumerate() {
                        if lv[ti] > 0 && lv[ti] < maxl && (ci == 0 || (split as usize >> (ci + ti) % 13) & 1 == 1) {
                            undefined.push((c.clone(), t.path.clone()));
                        }
                    }
                }
            }
            Case {
                config,
                mode,
                seq_args,
                cmd_args,
                sleeps,
                timing: timing.to_string(),
                undefined,
            }
        })
}

/// Size-boundary mode: one wide layer of mutually independent targets (group sizes
/// around 32 / 64 / 128) and a few dependents that use most of them; dependencies are
/// slower than dependents.
pub fn strategy_wide(max_width: usize) -> impl Strategy<Value = Case> {
    (
        prop_oneof![
            3 => 28usize..=40,
            2 => 60usize..=70,
            1 => 12usize..=130,
        ],
        1usize..=3,
        vec(any::<u16>(), 64),
        1usize..=2,
        0u8..3,
    )
        .prop_map(move |(width, tops, picks, ncmd, mode_k)| {
            let width = width.min(max_width);
            let mut targets = vec![];
            for i in 0..width {
                targets.push(crate::model::TargetSpec::new(&format!("w{:03}", i)));
            }
            for j in 0..tops {
                let mut t = crate::model::TargetSpec::new(&format!("top{}", j));
                // uses most of the wide layer, in a generated order
                for i in 0..width {
                    if picks[(i + 7 * j) % picks.len()] % 8 != 0 {
                        t.uses.push(format!("w{:03}", (i * 37 + j) % width));
                    }
                }
                t.uses.sort();
                t.uses.dedup();
                targets.push(t);
            }
            // declaration order: generated rotation, so that "the first 32" differ between cases
            let rot = picks[0] as usize % targets.len();
            targets.rotate_left(rot);
            let config = ConfigSpec {
                targets,
                ..Default::default()
            };
            let names: Vec<String> = (0..ncmd).map(|i| format!("c{}", i)).collect();
            let mut sleeps = vec![];
            for c in &names {
                for t in &config.targets {
                    let ms = if t.path.starts_with('w') { 40 } else { 0 };
                    sleeps.push((c.clone(), t.path.clone(), ms));
                }
            }
            let tops_list: Vec<String> = (0..tops).map(|j| format!("top{}", j)).collect();
            let mode = match mode_k {
                0 => Mode::All,
                1 => Mode::Changed(config.target_paths()),
                _ => Mode::Deps(tops_list),
            };
            Case {
                config,
                mode,
                seq_args: vec![],
                cmd_args: names,
                sleeps,
                timing: "deps-slower".into(),
                undefined: vec![],
            }
        })
}

/// Sparse-change mode: layers held together by an unchanged "spine" (target 0 of every layer
/// uses target 0 of the layer below and one never-changing file inside every other target of
/// that layer); the other targets use the spine below them and, mostly, one whole target two or
/// more layers further down. So every target has both a dependency chain and a dependents chain. Only non-spine targets
/// are changed, so the changed set skips levels: a changed target's nearest changed dependency
/// is often not in the next lower changed level.
pub fn strategy_sparse() -> impl Strategy<Value = Case> {
    (3usize..=5, vec(1usize..=3, 5), vec(any::<u16>(), 32), vec(any::<bool>(), 16), 1usize..=2, any::<bool>()).prop_map(
        |(nlayers, widths, picks, changed_mask, ncmd, random_timing)| {
            let mut targets = vec![];
            let mut layer_of: Vec<(usize, usize)> = vec![];
            let mut k = 0usize;
            let mut nextp = |m: usize| {
                k += 1;
                pick(picks[k % picks.len()], m)
            };
            for li in 0..nlayers {
                for j in 0..=widths[li] {
                    let mut t = crate::model::TargetSpec::new(&format!("s{}t{}", li, j));
                    if li > 0 {
                        t.uses.push(format!("s{}t0", li - 1));
                    }
                    if li > 0 && j == 0 {
                        // the spine also depends on every other target of the layer below, through a
                        // file that is never the changed one: an edge (and a level) without propagation
                        for jj in 1..=widths[li - 1] {
                            t.uses.push(format!("s{}t{}/api.txt", li - 1, jj));
                        }
                    }
                    if j > 0 && li >= 2 && nextp(5) < 4 {
                        let lower = nextp(li - 1);
                        let which = 1 + nextp(widths[lower]);
                        t.uses.push(format!("s{}t{}", lower, which));
                    }
                    targets.push(t);
                    layer_of.push((li, j));
                }
            }
            let config = ConfigSpec { targets, ..Default::default() };
            let mut chosen = vec![];
            for (i, t) in config.targets.iter().enumerate() {
                if layer_of[i].1 > 0 && changed_mask[i % changed_mask.len()] {
                    chosen.push(t.path.clone());
                }
            }
            if chosen.is_empty() {
                chosen.push("s0t1".to_string());
            }
            let names: Vec<String> = (0..ncmd).map(|i| format!("c{}", i)).collect();
            let mut sleeps = vec![];
            for c in &names {
                for (i, t) in config.targets.iter().enumerate() {
                    // lower layers are slower, so a dependent started too early is seen
                    let ms = if random_timing { (picks[i % picks.len()] % 60) as u64 } else { 25 * (nlayers - layer_of[i].0) as u64 };
                    sleeps.push((c.clone(), t.path.clone(), ms));
                }
            }
            Case {
                config,
                mode: Mode::Changed(chosen),
                seq_args: vec![],
                cmd_args: names,
                sleeps,
                timing: if random_timing { "random".into() } else { "deps-slower".into() },
                undefined: vec![],
            }
        },
    )
}

/// Many targets (65-140) with dependencies at every position of the declaration order: target i
/// uses one or two of a handful of base targets or of its recent predecessors, the declaration
/// order is rotated; dependencies are slower than dependents.
pub fn strategy_many(max_n: usize) -> impl Strategy<Value = Case> {
    (65usize..=140, vec(any::<u16>(), 48), 0u8..3).prop_map(move |(n, picks, mode_k)| {
        let n = n.min(max_n);
        let mut targets: Vec<crate::model::TargetSpec> = vec![];
        for i in 0..n {
            let mut t = crate::model::TargetSpec::new(&format!("m{:03}", i));
            if i >= 4 {
                let a = picks[i % picks.len()] as usize;
                // a base target, or one of the eight predecessors
                let d1 = if a % 3 == 0 { a % 4 } else { i - 1 - (a % 8.min(i)) };
                t.uses.push(format!("m{:03}", d1));
                if a % 5 == 0 {
                    let d2 = (a / 7) % i;
                    if d2 != d1 {
                        t.uses.push(format!("m{:03}", d2));
                    }
                }
            }
            targets.push(t);
        }
        let rot = picks[1] as usize % n;
        targets.rotate_left(rot);
        let config = ConfigSpec { targets, ..Default::default() };
        let lv = levels(&config);
        let maxl = lv.iter().copied().max().unwrap_or(0);
        let mut sleeps = vec![];
        for (ti, t) in config.targets.iter().enumerate() {
            // keep the whole run around a second: the deeper the chain, the shorter the step
            let step = (600 / (maxl as u64 + 1)).clamp(8, 40);
            sleeps.push(("c0".to_string(), t.path.clone(), step * (maxl - lv[ti]) as u64 / 2));
        }
        let mode = match mode_k {
            0 => Mode::All,
            1 => Mode::Changed(config.targets.iter().map(|t| t.path.clone()).collect()),
            _ => Mode::Deps(config.targets.iter().rev().take(12).map(|t| t.path.clone()).collect()),
        };
        Case {
            config,
            mode,
            seq_args: vec![],
            cmd_args: vec!["c0".into()],
            sleeps,
            timing: "deps-slower".into(),
            undefined: vec![],
        }
    })
}

pub fn expected_commands(case: &Case) -> Vec<String> {
    let mut v = vec![];
    for s in &case.seq_args {
        v.extend(case.config.sequences.get(s).cloned().unwrap_or_default());
    }
    v.extend(case.cmd_args.iter().cloned());
    v
}

pub fn check(case: &Case, w: usize) -> CheckResult {
    let cfg = &case.config;
    let mut env = Env::new(w);
    env.install_config(cfg);
    let mut beh = BTreeMap::new();
    let mut sleep_of = BTreeMap::new();
    for (c, t, ms) in &case.sleeps {
        beh.insert(
            (c.clone(), t.clone()),
            Behavior {
                sleep_ms: *ms,
                detach_output: case.timing == "dependencies-detach-their-output" && *ms >= 1000,
                ..Default::default()
            },
        );
        sleep_of.insert((c.clone(), t.clone()), *ms);
    }
    for k in &case.undefined {
        beh.remove(k);
    }
    bb::install_simple(&env, cfg, &beh);
    let mut args: Vec<String> = vec!["run".into()];
    if !case.seq_args.is_empty() {
        args.push("-s".into());
        args.extend(case.seq_args.iter().cloned());
    }
    if !case.cmd_args.is_empty() {
        args.push("-c".into());
        args.extend(case.cmd_args.iter().cloned());
    }
    match &case.mode {
        Mode::All => {}
        Mode::Changed(ts) => {
            if let Err(e) = bb::commit_all_and_checkpoint(&mut env) {
                return inconclusive(e);
            }
            for t in ts {
                env.write_file(&format!("{}/new-file.txt", t), b"new\n");
            }
        }
        Mode::Deps(ts) => {
            args.push("-t".into());
            args.extend(ts.iter().cloned());
            args.push("--deps".into());
        }
    }
    let argv: Vec<&str> = args.iter().map(|s| s.as_str()).collect();
    let out = env.mr(&argv);
    if out.timed_out {
        return inconclusive("run timed out".into());
    }
    let Some(doc) = out.json() else {
        if out.error_type() == "graph" {
            // not this property's business (C03); cannot happen on acyclic configs once C03 holds
            return Ok(CaseInfo::new(false).class("rejected(C03)").inv(env.invocations));
        }
        return inconclusive(format!("run produced no JSON: {}", out.brief()));
    };
    let run = bb::parse_run(&doc).map_err(|e| Violation::new("c04.output", e))?;
    if run.failed || out.code != Some(0) {
        return inconclusive(format!("run failed although every command exits 0: {}", out.brief()));
    }
    // documented command order
    let want_cmds = expected_commands(case);
    let got_cmds: Vec<String> = run.results.iter().map(|r| r.0.clone()).collect();
    if got_cmds != want_cmds {
        return viol_obs(
            "c04.command.order",
            "commands in the result are not `sequences expanded first, then --commands, in the order given`".into(),
            json!({"want": want_cmds, "got": got_cmds}),
        );
    }
    let mut traces = env.traces();
    // a helper that has not written its end record yet is still running although `run` has
    // returned: wait for it (its own sleep plus a few seconds), its exit time is needed below
    let longest = case.sleeps.iter().map(|s| s.2).max().unwrap_or(0);
    let t_wait = std::time::Instant::now();
    while traces.iter().any(|t| t.end_ns.is_none()) && t_wait.elapsed() < std::time::Duration::from_millis(longest + 5_000) {
        std::thread::sleep(std::time::Duration::from_millis(20));
        traces = env.traces();
    }
    // a repeated command has one trace per occurrence: the i-th start belongs to the i-th place
    let mut per_key: BTreeMap<(String, String), Vec<(u128, u128)>> = BTreeMap::new();
    for t in &traces {
        let k = bb::trace_key(&env, t);
        let Some(end) = t.end_ns else {
            return inconclusive("helper without end record".into());
        };
        per_key.entry(k).or_default().push((t.start_ns, end));
    }
    let mut occ_of: Vec<(String, usize)> = vec![];
    let mut seen_count: BTreeMap<String, usize> = BTreeMap::new();
    for c in &want_cmds {
        let e = seen_count.entry(c.clone()).or_insert(0);
        occ_of.push((c.clone(), *e));
        *e += 1;
    }
    let mut tr: BTreeMap<(usize, String), (u128, u128)> = BTreeMap::new(); // (place in the command list, target)
    for ((cmd, target), mut v) in per_key {
        v.sort();
        let places: Vec<usize> = occ_of.iter().enumerate().filter(|(_, o)| o.0 == cmd).map(|(i, _)| i).collect();
        if v.len() > places.len() {
            return viol("c04.started.twice", format!("({}, {}) was started {} times for {} places in the command list", cmd, target, v.len(), places.len()));
        }
        if v.len() < places.len() {
            return viol("c04.repeated.command.dropped", format!("({}, {}) was started {} times although the command is listed {} times", cmd, target, v.len(), places.len()));
        }
        for (iv, place) in v.into_iter().zip(places) {
            tr.insert((place, target.clone()), iv);
        }
    }
    let in_run: BTreeSet<String> = run
        .results
        .first()
        .map(|r| r.1.iter().flat_map(|g| g.keys().cloned()).collect())
        .unwrap_or_default();
    let mut slow_dep_pair = false;
    // "depends on" includes dependencies that run through targets which are not part of the run
    let adj = model::dep_adj(cfg);
    let reach: Vec<std::collections::BTreeSet<usize>> = (0..cfg.targets.len()).map(|i| model::closure(&adj, &[i])).collect();
    for (place, c) in want_cmds.iter().enumerate() {
        for (ti, t) in cfg.targets.iter().enumerate().filter(|(_, t)| in_run.contains(&t.path)) {
            for (ui, u) in cfg.targets.iter().enumerate().filter(|(_, u)| in_run.contains(&u.path)) {
                if ti == ui || !reach[ti].contains(&ui) {
                    continue;
                }
                let (Some(tt), Some(tu)) = (tr.get(&(place, t.path.trim_end_matches('/').to_string())), tr.get(&(place, u.path.trim_end_matches('/').to_string()))) else {
                    continue;
                };
                if tt.0 < tu.1 {
                    return viol_obs(
                        "c04.dependency.order",
                        format!(
                            "command {}: target {:?} was started {} ns before its dependency {:?} had exited",
                            c, t.path, tu.1 - tt.0, u.path
                        ),
                        json!({"dependent": tt, "dependency": tu, "timing": case.timing}),
                    );
                }
                let st = sleep_of.get(&(c.clone(), t.path.clone())).copied().unwrap_or(0);
                let su = sleep_of.get(&(c.clone(), u.path.clone())).copied().unwrap_or(0);
                if su > st {
                    slow_dep_pair = true;
                }
            }
        }
    }
    let mut earlier_slower = false;
    for (place, win) in want_cmds.windows(2).enumerate() {
        let prev_end = tr.iter().filter(|(k, _)| k.0 == place).map(|(_, v)| v.1).max();
        let next_start = tr.iter().filter(|(k, _)| k.0 == place + 1).map(|(_, v)| v.0).min();
        if let (Some(pe), Some(ns)) = (prev_end, next_start) {
            if ns < pe {
                return viol_obs(
                    "c04.command.overlap",
                    format!("an executable of command {} started {} ns before command {} had finished", win[1], pe - ns, win[0]),
                    json!({"timing": case.timing}),
                );
            }
            let s0 = sleep_of.iter().filter(|(k, _)| k.0 == win[0] && in_run.contains(&k.1)).map(|(_, v)| *v).max().unwrap_or(0);
            let s1 = sleep_of.iter().filter(|(k, _)| k.0 == win[1] && in_run.contains(&k.1)).map(|(_, v)| *v).min().unwrap_or(0);
            if s0 > s1 {
                earlier_slower = true;
            }
        }
    }
    let mode = match &case.mode {
        Mode::All => "mode=all",
        Mode::Changed(_) => "mode=changed",
        Mode::Deps(_) => "mode=deps",
    };
    Ok(CaseInfo::new(slow_dep_pair || earlier_slower)
        .class(mode)
        .class(&format!("timing={}", case.timing))
        .class_if(slow_dep_pair, "slow-dependency-pair")
        .class_if(earlier_slower, "earlier-command-slower")
        .class_if(!case.seq_args.is_empty() && !case.cmd_args.is_empty(), "sequences+commands")
        .class_if(seen_count.values().any(|&n| n > 1), "repeated-command")
        .class_if(!case.undefined.is_empty(), "middle-targets-without-the-command")
        .class_if(in_run.is_empty(), "empty-run")
        .class_if(in_run.len() > 32, "targets>32")
        .class_if(in_run.len() > 64, "targets>64")
        .inv(env.invocations))
}

pub fn run(ctx: &mut Ctx) {
    ctx.rule = "acyclic configuration (<=10 targets; plus 65-140 targets each using base targets or recent predecessors, declaration order rotated; plus a size-boundary mode with one layer of 12-70 (thorough: 130) independent targets, biased to 28-40 and 60-70, below 1-3 dependents; plus a sparse-change mode: 3-5 layers on an unchanged spine, non-spine targets using targets two or more layers down, only non-spine targets changed) x selection mode (all / changed / -t --deps) x 1-4 (sometimes 8-12) commands split over -s sequences and -c (one of them may be listed a second time) \
x run-time assignment (zero / random / dependencies slower than dependents / earlier command slower); all helpers exit 0. oracle over helper traces \
(CLOCK_MONOTONIC): start(T,c) >= end(U,c) for every dep(T,U) in the run, min start(c[i+1]) >= max end(c[i]), result command order == documented order. \
non-trivial = a dependency pair whose dependency sleeps longer than its dependent, or two consecutive commands with the earlier one slower; distinct by SHA-256"
        .to_string();
    ctx.assumptions = vec![
        "a process records end_ns before it exits and start_ns after it was spawned, so a correct scheduler can never produce start < end".into(),
        "overlaps shorter than process start-up can be missed".into(),
    ];
    let n = ctx.n(250, 5000);
    ctx.drive("run", strategy, n, check);
    let n2 = ctx.n(24, 400);
    let max_width = if ctx.thorough() { 130 } else { 70 };
    ctx.drive("wide", || strategy_wide(max_width), n2, check);
    let n3 = ctx.n(60, 1000);
    ctx.drive("sparse-changes", strategy_sparse, n3, check);
    let n4 = ctx.n(12, 200);
    ctx.drive("many-targets-with-dependencies-everywhere", move || strategy_many(140), n4, check);
}

pub fn replay(ctx: &Ctx, label: &str, case: Value) -> Result<(), String> {
    let c: Case = serde_json::from_value(case).map_err(|e| e.to_string())?;
    let r = check(&c, 0);
    ctx.replay_one(label, &c, r);
    Ok(())
}
