//! C11 - executables get the documented argv, working directory and resolution.

use crate::bb::{self, Env};
use crate::model::{ConfigSpec, TargetSpec};
use crate::runner::*;
use proptest::collection::vec;
use proptest::prelude::*;
use serde::{Deserialize, Serialize};
use serde_json::{json, Value};
use std::collections::BTreeMap;

#[derive(Debug, Clone, Serialize, Deserialize, PartialEq)]
pub enum Def {
    /// file `<commands dir>/<cmd><ext>` found by stem
    Stem(String),
    /// `definitions: {cmd: {path}}`, repo-relative path
    Explicit(String),
    /// `definitions: {cmd: {}}` plus a by-stem file with this extension
    EmptyDef(String),
    Undefined,
}

#[derive(Debug, Clone, Serialize, Deserialize)]
pub struct Case {
    pub config: ConfigSpec,
    pub commands: Vec<String>,
    /// (target, command) -> definition
    pub defs: Vec<(String, String, Def)>,
    /// decoy entries to create: (repo-relative path, is_dir)
    pub decoys: Vec<(String, bool)>,
    /// argmap files: (target, name, content: command -> args); name "base" = base.json
    pub argmap_files: Vec<(String, String, BTreeMap<String, Vec<String>>)>,
    pub cli_argmaps: Vec<String>,
    pub no_base: bool,
    pub cli_args: Vec<String>,
    /// explicit -t list (empty = all targets, no checkpoint)
    pub cli_targets: Vec<String>,
    /// add --deps (the named targets then pull in what they use)
    #[serde(default)]
    pub deps: bool,
    /// how the commands are requested: 0 = all with -c, 1 = all through a sequence (-s),
    /// 2 = the first through a sequence and the rest with -c (the order stays the same)
    #[serde(default)]
    pub via_sequence: u8,
}

const ARG_POOL: [&str; 16] = [
    "--release", "a b", "", "it's", "say \"hi\"", "back\\slash", "ünï¢ode", "line1\nline2", "-x", "--flag=va lue", "$HOME", "*", "tab\there",
    "trailing ", " leading", "{}",
];
const CLI_ARG_POOL: [&str; 10] = ["a b", "", "it's", "say \"hi\"", "back\\slash", "ünï¢ode", "x=1", "$HOME", "*", "two  spaces"];

fn arg_list(pool: &'static [&'static str], max: usize) -> impl Strategy<Value = Vec<String>> {
    vec(any::<u16>(), 0..=max).prop_map(move |v| v.into_iter().map(|i| pool[pick(i, pool.len())].to_string()).collect())
}

pub fn strategy() -> impl Strategy<Value = Case> {
    let target_layouts = vec![
        vec!["a"],
        vec!["a", "lib"],
        vec!["a", "a/ab", "lib"],
        vec!["app", "app2", "app/core", "lib/x-y"],
        vec!["é", "a.b", "a-b", "a", "a/b/c"],
        // multi-component targets that come first in their group
        vec!["libs/core", "tools", "web"],
        vec!["a/b/c", "b", "c/d", "d", "a/b/c/d"],
    ];
    (
        proptest::sample::select(target_layouts),
        1usize..=2,
        vec((0u8..10, 0u8..3, any::<bool>(), any::<bool>()), 10),
        vec((0u8..6, any::<u16>()), 0..=4),
        vec((0u8..16, 0u8..16, vec(arg_list(&ARG_POOL, 3), 8)), 5),
        vec(0u8..4, 0..=3),
        any::<bool>(),
        (any::<bool>(), arg_list(&CLI_ARG_POOL, 3), any::<u16>(), 0u8..3),
    )
        .prop_map(|(layout, ncmd, per_target, rdecoys, rmaps, rcli_maps, no_base, (want_args, cli_args_raw, tsel, tmode))| {
            let commands: Vec<String> = ["build", "test"][..ncmd].iter().map(|s| s.to_string()).collect();
            let exts = ["", ".sh", ".py"];
            let mut targets = vec![];
            let mut defs = vec![];
            let mut shared_ext: BTreeMap<(String, String), String> = BTreeMap::new();
            // a file with the command's stem in the command directory of a target that maps the
            // command to another executable (half of the configurations)
            let mut stem_decoys: Vec<(String, bool)> = vec![];
            for (i, p) in layout.iter().enumerate() {
                let (kind, ext, custom_cmd_dir, custom_arg_dir) = per_target[i % per_target.len()];
                let mut t = TargetSpec::new(p);
                // custom directories are shared between targets half of the time
                if custom_cmd_dir {
                    t.commands_path = Some(if ext % 2 == 0 { "tools/shared-cmds".to_string() } else { format!("tools/cmds{}", i) });
                }
                if custom_arg_dir {
                    t.argmaps_path = Some(if kind % 2 == 0 { "tools/shared-args".to_string() } else { format!("tools/args{}", i) });
                }
                for (ci, c) in commands.iter().enumerate() {
                    let k = (kind as usize + ci * 3) % 10;
                    // one by-stem file per (directory, command): sharing targets use the same extension
                    let e = shared_ext
                        .entry((t.commands_dir(), c.clone()))
                        .or_insert_with(|| exts[(ext as usize + ci) % 3].to_string())
                        .clone();
                    let e_decoy = e.clone();
                    let d = match k {
                        0..=3 => Def::Stem(e),
                        4 | 5 => Def::Explicit(format!("shared/bin/{}-impl{}", c, e)),
                        6 => Def::Explicit(format!("{}/scripts/{}-own.sh", p, c)),
                        7 | 8 => Def::EmptyDef(e),
                        _ => Def::Undefined,
                    };
                    match &d {
                        Def::Explicit(path) => {
                            t.command_defs.insert(c.clone(), path.clone());
                            // (not in a directory shared with other targets: there the file would define the command for them)
                            if per_target[0].0 % 2 == 0 && t.commands_path.as_deref() != Some("tools/shared-cmds") {
                                stem_decoys.push((format!("{}/{}{}", t.commands_dir(), c, e_decoy), false));
                            }
                        }
                        Def::EmptyDef(_) => {
                            t.command_defs.insert(c.clone(), String::new());
                        }
                        _ => {}
                    }
                    defs.push((p.to_string(), c.clone(), d));
                }
                // dependencies between the targets (earlier ones only, so no cycle)
                if i > 0 && (kind + ext) % 2 == 0 {
                    let j = (kind as usize + i) % i;
                    if !layout[i].starts_with(&format!("{}/", layout[j])) && !layout[j].starts_with(&format!("{}/", layout[i])) {
                        t.uses.push(layout[j].to_string());
                    }
                }
                targets.push(t);
            }
            let config = ConfigSpec {
                targets,
                ..Default::default()
            };
            let n = config.targets.len();
            let mut decoys = stem_decoys;
            decoys.dedup();
            for (k, sel) in rdecoys {
                let t = &config.targets[pick(sel, n)];
                let c = &commands[(sel as usize) % ncmd];
                let dir = t.commands_dir();
                let d = match k {
                    0 => (format!("{}/{}x.sh", dir, c), false),
                    1 => (format!("{}/x{}.sh", dir, c), false),
                    2 => (format!("{}/{}.d", dir, c), true),
                    3 => (format!("{}/{}.dir.sh", dir, c), false),
                    4 => (format!("{}/{}", dir, c.to_uppercase()), false),
                    _ => (format!("{}/sub/{}.sh", dir, c), false),
                };
                if !decoys.contains(&d) {
                    decoys.push(d);
                }
            }
            // plain directories named like another target, next to a multi-component target
            for t in &config.targets {
                let Some((parent, _)) = t.path.rsplit_once('/') else { continue };
                for u in &config.targets {
                    let d = (format!("{}/{}", parent, u.path), true);
                    if !u.path.contains('/') && config.target(&d.0).is_none() && !decoys.contains(&d) {
                        decoys.push(d);
                    }
                }
            }
            let map_names = ["base", "m1", "m1.v2", "m 3"];
            let mut argmap_files: Vec<(String, String, BTreeMap<String, Vec<String>>)> = vec![];
            for (ti, (present, lacks, lists)) in rmaps.iter().enumerate().take(n) {
                let t = config.targets[ti].path.clone();
                for (k, name) in map_names.iter().enumerate() {
                    // base is present more often than not
                    let is_present = present >> k & 1 == 1 || (k == 0 && lacks & 8 == 0);
                    if !is_present {
                        continue;
                    }
                    let mut content = BTreeMap::new();
                    if lacks >> k & 1 == 1 && k != 0 {
                        content.insert("other".to_string(), lists[k].clone());
                    } else {
                        content.insert(commands[0].clone(), lists[k].clone());
                        if ncmd > 1 {
                            content.insert(commands[1].clone(), lists[4 + k].clone());
                        }
                    }
                    argmap_files.push((t.clone(), name.to_string(), content));
                }
            }
            let cli_argmaps: Vec<String> = rcli_maps.iter().map(|&k| ["m1", "m1.v2", "m 3", "nofile"][k as usize].to_string()).collect();
            let mut deps = false;
            let (cli_args, cli_targets) = if want_args && ncmd == 1 {
                (cli_args_raw, vec![config.targets[pick(tsel, n)].path.clone()])
            } else {
                let ts = match tmode {
                    0 => vec![],
                    1 => {
                        // one named target; half of the time its dependencies come along
                        deps = tsel % 2 == 0;
                        vec![config.targets[pick(tsel, n)].path.clone()]
                    }
                    _ => config.target_paths(),
                };
                (vec![], ts)
            };
            // `--args` is only accepted together with exactly one `-c` command
            let via_sequence = if cli_args.is_empty() { (tsel.rotate_left(5) % 3) as u8 } else { 0 };
            let mut config = config;
            match via_sequence {
                1 => {
                    config.sequences.insert("pipeline".into(), commands.clone());
                }
                2 => {
                    config.sequences.insert("pipeline".into(), commands[..1].to_vec());
                }
                _ => {}
            }
            Case {
                config,
                commands,
                defs,
                decoys,
                argmap_files,
                cli_argmaps,
                no_base,
                cli_args,
                cli_targets,
                deps,
                via_sequence,
            }
        })
}

/// The file a definition installs (None for Undefined).
fn installed_file(cfg: &ConfigSpec, target: &str, cmd: &str, d: &Def) -> Option<String> {
    let t = cfg.target(target)?;
    match d {
        Def::Stem(ext) | Def::EmptyDef(ext) => Some(format!("{}/{}{}", t.commands_dir(), cmd, ext)),
        Def::Explicit(p) => Some(p.clone()),
        Def::Undefined => None,
    }
}

/// What the documented resolution yields for (target, command), given everything that is
/// on disk: the explicit definition path if one is configured, otherwise the file in the
/// target's command directory whose stem equals the command (possibly installed on behalf
/// of another target sharing that directory).
fn expected_exe(case: &Case, target: &str, cmd: &str, d: &Def) -> Option<String> {
    let cfg = &case.config;
    if let Def::Explicit(p) = d {
        return Some(p.clone());
    }
    let dir = cfg.target(target)?.commands_dir();
    for (t2, c2, d2) in &case.defs {
        if c2 == cmd && matches!(d2, Def::Stem(_) | Def::EmptyDef(_)) && cfg.target(t2)?.commands_dir() == dir {
            return installed_file(cfg, t2, c2, d2);
        }
    }
    None
}

/// argmap files as they end up on disk: path -> content (targets may share a directory;
/// a later file with the same path replaces an earlier one)
fn argmap_disk(case: &Case) -> BTreeMap<String, BTreeMap<String, Vec<String>>> {
    let mut m = BTreeMap::new();
    for (t, name, content) in &case.argmap_files {
        let dir = case.config.target(t).unwrap().argmaps_dir();
        m.insert(format!("{}/{}.json", dir, name), content.clone());
    }
    m
}

fn expected_args(case: &Case, target: &str, cmd: &str) -> (Vec<String>, usize) {
    let mut v = vec![];
    let mut sources = 0;
    let disk = argmap_disk(case);
    let dir = case.config.target(target).unwrap().argmaps_dir();
    let file = |name: &str| disk.get(&format!("{}/{}.json", dir, name)).and_then(|f| f.get(cmd).cloned());
    if !case.no_base {
        if let Some(a) = file("base") {
            if !a.is_empty() {
                sources += 1;
            }
            v.extend(a);
        }
    }
    for m in &case.cli_argmaps {
        if let Some(a) = file(m) {
            if !a.is_empty() {
                sources += 1;
            }
            v.extend(a);
        }
    }
    if !case.cli_args.is_empty() && case.cli_targets.len() == 1 && case.cli_targets[0] == target && case.commands.len() == 1 {
        sources += 1;
        v.extend(case.cli_args.iter().cloned());
    }
    (v, sources)
}

fn install_case(env: &Env, case: &Case) {
    let cfg = &case.config;
    env.install_config(cfg);
    for (t, c, d) in &case.defs {
        if let Some(exe) = installed_file(cfg, t, c, d) {
            env.install_command(&exe, true);
        }
    }
    for (p, is_dir) in &case.decoys {
        let abs = env.path(p);
        if abs.exists() {
            continue;
        }
        if *is_dir {
            let _ = std::fs::create_dir_all(&abs);
        } else {
            env.install_command(p, true);
        }
    }
    for (path, content) in argmap_disk(case) {
        env.write_file(&path, serde_json::to_string(&content).unwrap().as_bytes());
    }
}

fn selected_targets(case: &Case) -> Vec<String> {
    let cfg = &case.config;
    if case.cli_targets.is_empty() {
        cfg.target_paths()
    } else if case.deps {
        let idx = crate::gen::index_of(cfg);
        let adj = crate::model::dep_adj(cfg);
        let roots: Vec<usize> = case.cli_targets.iter().map(|t| idx[t]).collect();
        crate::model::closure(&adj, &roots).into_iter().map(|i| cfg.targets[i].path.clone()).collect()
    } else {
        case.cli_targets.clone()
    }
}

/// In-process form: the plan `run` would execute, captured from the real `handle_run` right
/// before execution (guarded hook `verif::run_plan`); every selected (command, target) must carry
/// the documented working directory, executable and argument list. Nothing is started, so one
/// case costs the files it writes.
pub fn check_plan(case: &Case, w: usize) -> CheckResult {
    let cfg = &case.config;
    let env = Env::new_in(crate::scratch::fast_root(), w);
    install_case(&env, case);
    let (sequences, commands): (Vec<String>, Vec<String>) = match case.via_sequence {
        1 => (vec!["pipeline".into()], vec![]),
        2 => (vec!["pipeline".into()], case.commands.iter().skip(1).cloned().collect()),
        _ => (vec![], case.commands.clone()),
    };
    let a = monorail::verif::RunArgs {
        commands,
        sequences,
        targets: case.cli_targets.clone(),
        args: case.cli_args.clone(),
        argmaps: case.cli_argmaps.clone(),
        include_deps: case.deps && !case.cli_targets.is_empty(),
        fail_on_undefined: false,
        use_base_argmaps: !case.no_base,
    };
    let rt = tokio::runtime::Builder::new_current_thread().enable_all().build().map_err(|e| Inconclusive(e.to_string()))?;
    let got = rt.block_on(monorail::verif::run_plan(&env.config_path(), &a));
    let doc: Value = match got {
        Ok(s) => serde_json::from_str(&s).map_err(|e| Inconclusive(format!("plan is not JSON: {}", e)))?,
        Err(e) => {
            return viol_obs("c11.plan.rejected", "planning a run over valid inputs (configuration, command files, argmap files, arguments) failed".into(), json!({"error": e}));
        }
    };
    let plan_cmds: Vec<String> = doc["commands"].as_array().map(|a| a.iter().filter_map(|c| c.as_str().map(String::from)).collect()).unwrap_or_default();
    if plan_cmds != case.commands {
        return viol_obs("c11.plan.commands", "the planned commands are not the requested ones in order".into(), json!({"want": case.commands, "got": plan_cmds}));
    }
    let selected = selected_targets(case);
    let empty = vec![];
    let ctgs = doc["plan"]["command_target_groups"].as_array().unwrap_or(&empty);
    if ctgs.len() != plan_cmds.len() {
        return viol("c11.plan.shape", format!("{} planned command entries for {} commands", ctgs.len(), plan_cmds.len()));
    }
    let root = env.repo.display().to_string();
    let mut multi_source = false;
    let mut custom = false;
    for (ci, c) in plan_cmds.iter().enumerate() {
        let mut seen: BTreeMap<String, &Value> = BTreeMap::new();
        for g in ctgs[ci]["target_groups"].as_array().unwrap_or(&empty) {
            for pt in g.as_array().unwrap_or(&empty) {
                let t = pt["path"].as_str().unwrap_or("").to_string();
                if seen.insert(t.clone(), pt).is_some() {
                    return viol("c11.plan.duplicate", format!("({}, {}) is planned twice", c, t));
                }
            }
        }
        let want_set: std::collections::BTreeSet<&String> = selected.iter().collect();
        let got_set: std::collections::BTreeSet<&String> = seen.keys().collect();
        if want_set != got_set {
            return viol_obs("c11.plan.targets", format!("command {}: the planned targets are not the selected ones", c), json!({"want": want_set, "got": got_set}));
        }
        for (t, c2, d) in case.defs.iter().filter(|(_, c2, _)| c2 == c) {
            let Some(pt) = seen.get(t) else { continue };
            let _ = c2;
            let want_cwd = format!("{}/{}", root, t);
            let got_cwd = pt["command_work_path"].as_str().unwrap_or("");
            if got_cwd.trim_end_matches('/') != want_cwd.trim_end_matches('/') {
                return viol_obs("c11.plan.cwd", format!("({}, {}): working directory is not the target's directory", c, t), json!({"want": want_cwd, "got": got_cwd}));
            }
            let (want_args, sources) = expected_args(case, t, c);
            let got_args: Vec<String> = pt["command_args"].as_array().map(|a| a.iter().filter_map(|x| x.as_str().map(String::from)).collect()).unwrap_or_default();
            if let Some(exe) = expected_exe(case, t, c, d) {
                let want_exe = format!("{}/{}", root, exe);
                let got_exe = pt["command_path"].as_str().unwrap_or("");
                if std::path::Path::new(got_exe) != std::path::Path::new(&want_exe) {
                    return viol_obs("c11.plan.resolution", format!("({}, {}): the planned executable is not the documented one", c, t), json!({"want": want_exe, "got": pt["command_path"], "definition": d}));
                }
                if got_args != want_args {
                    return viol_obs("c11.plan.argv", format!("({}, {}): argument list differs from base ++ argmaps ++ args", c, t), json!({"want": want_args, "got": got_args}));
                }
                if sources >= 2 {
                    multi_source = true;
                }
                if matches!(d, Def::Explicit(_) | Def::EmptyDef(_)) || cfg.target(t).unwrap().commands_path.is_some() || cfg.target(t).unwrap().argmaps_path.is_some() {
                    custom = true;
                }
            }
        }
    }
    Ok(CaseInfo::new(multi_source || custom)
        .class_if(case.via_sequence != 0, "commands-through-a-sequence")
        .class_if(multi_source, "multi-source-args")
        .class_if(custom, "custom-dir-or-definition")
        .class_if(!case.cli_args.is_empty(), "cli-args")
        .class_if(case.deps && selected.len() > case.cli_targets.len(), "deps-pulled-in")
        .class_if(case.no_base, "no-base")
        .class_if(!case.cli_argmaps.is_empty(), "cli-argmaps"))
}

pub fn check(case: &Case, w: usize) -> CheckResult {
    let cfg = &case.config;
    let mut env = Env::new(w);
    env.install_config(cfg);
    for (t, c, d) in &case.defs {
        if let Some(exe) = installed_file(cfg, t, c, d) {
            env.install_command(&exe, true);
        }
    }
    for (p, is_dir) in &case.decoys {
        let abs = env.path(p);
        if abs.exists() {
            continue;
        }
        if *is_dir {
            let _ = std::fs::create_dir_all(&abs);
        } else {
            env.install_command(p, true);
        }
    }
    for (path, content) in argmap_disk(case) {
        env.write_file(&path, serde_json::to_string(&content).unwrap().as_bytes());
    }
    env.set_plan(&BTreeMap::new());
    let mut args: Vec<String> = vec!["run".into()];
    match case.via_sequence {
        1 => {
            args.push("-s".into());
            args.push("pipeline".into());
        }
        2 => {
            args.push("-s".into());
            args.push("pipeline".into());
            if case.commands.len() > 1 {
                args.push("-c".into());
                args.extend(case.commands[1..].iter().cloned());
            }
        }
        _ => {
            args.push("-c".into());
            args.extend(case.commands.iter().cloned());
        }
    }
    if !case.cli_targets.is_empty() {
        args.push("-t".into());
        args.extend(case.cli_targets.iter().cloned());
        if case.deps {
            args.push("--deps".into());
        }
    }
    if !case.cli_argmaps.is_empty() {
        args.push("--argmaps".into());
        args.extend(case.cli_argmaps.iter().cloned());
    }
    if case.no_base {
        args.push("--no-base-argmaps".into());
    }
    if !case.cli_args.is_empty() {
        args.push("--args".into());
        args.extend(case.cli_args.iter().cloned());
    }
    let argv: Vec<&str> = args.iter().map(|s| s.as_str()).collect();
    let out = env.mr(&argv);
    if out.timed_out {
        return inconclusive("run timed out".into());
    }
    let Some(doc) = out.json() else {
        if (out.stderr_str().contains("Lock acquisition failed") || out.stderr_str().contains("Text file busy")) {
            return inconclusive(format!("run produced no JSON: {}", out.brief()));
        }
        // configuration, command files, argmap files and arguments are all valid: a run that ends
        // without a result has started nothing with the documented arguments
        return viol_obs("c11.run.rejected", "a run over valid inputs (configuration, command files, argmap files, arguments) ended without a result".into(), out.brief());
    };
    let run = bb::parse_run(&doc).map_err(|e| Violation::new("c11.output", e))?;
    if run.failed {
        return inconclusive(format!("run failed: {}", out.brief()));
    }
    let selected: Vec<String> = if case.cli_targets.is_empty() {
        cfg.target_paths()
    } else if case.deps {
        let idx = crate::gen::index_of(cfg);
        let adj = crate::model::dep_adj(cfg);
        let roots: Vec<usize> = case.cli_targets.iter().map(|t| idx[t]).collect();
        crate::model::closure(&adj, &roots).into_iter().map(|i| cfg.targets[i].path.clone()).collect()
    } else {
        case.cli_targets.clone()
    };
    let traces = env.traces();
    let mut used = vec![false; traces.len()];
    let mut multi_source = false;
    let mut custom = false;
    for (t, c, d) in &case.defs {
        if !selected.contains(t) {
            continue;
        }
        let exe = expected_exe(case, t, c, d);
        let (want_args, sources) = expected_args(case, t, c);
        let matches: Vec<usize> = traces
            .iter()
            .enumerate()
            .filter(|(_, tr)| env.rel(&tr.cwd) == *t && exe.as_deref() == Some(env.rel(&tr.exe).as_str()))
            .map(|(i, _)| i)
            .collect();
        match exe {
            None => {}
            Some(exe) => {
                // two commands of one target may share nothing; an (exe, cwd) pair is unique per (target, command)
                if matches.len() != 1 {
                    let here: Vec<_> = traces.iter().filter(|tr| env.rel(&tr.cwd) == *t).map(|tr| env.rel(&tr.exe)).collect();
                    return viol_obs(
                        "c11.resolution",
                        format!("({}, {}): expected exactly one process running {:?} in the target directory, found {}", c, t, exe, matches.len()),
                        json!({"started_in_target_dir": here, "definition": d}),
                    );
                }
                let tr = &traces[matches[0]];
                used[matches[0]] = true;
                if tr.argv != want_args {
                    return viol_obs(
                        "c11.argv",
                        format!("({}, {}): argument list differs from base ++ argmaps ++ args", c, t),
                        json!({"want": want_args, "got": tr.argv}),
                    );
                }
                if sources >= 2 {
                    multi_source = true;
                }
                if matches!(d, Def::Explicit(_) | Def::EmptyDef(_)) || cfg.target(t).unwrap().commands_path.is_some() || cfg.target(t).unwrap().argmaps_path.is_some() {
                    custom = true;
                }
            }
        }
    }
    for (i, tr) in traces.iter().enumerate() {
        if !used[i] {
            return viol_obs(
                "c11.unexpected.process",
                format!("a process ran {:?} in {:?}, which no selected (command, target) resolves to", env.rel(&tr.exe), env.rel(&tr.cwd)),
                json!({"argv": tr.argv}),
            );
        }
    }
    Ok(CaseInfo::new(multi_source || custom)
        .class_if(case.via_sequence != 0, "commands-through-a-sequence")
        .class_if(multi_source, "multi-source-args")
        .class_if(custom, "custom-dir-or-definition")
        .class_if(!case.cli_args.is_empty(), "cli-args")
        .class_if(case.deps && selected.len() > case.cli_targets.len(), "deps-pulled-in")
        .class_if(case.no_base, "no-base")
        .class_if(!case.cli_argmaps.is_empty(), "cli-argmaps")
        .class_if(!case.decoys.is_empty(), "decoys")
        .class_if(
            {
                let dirs: Vec<String> = selected.iter().map(|t| cfg.target(t).unwrap().commands_dir()).collect();
                let mut d = dirs.clone();
                d.sort();
                d.dedup();
                d.len() < dirs.len()
            },
            "shared-commands-dir",
        )
        .inv(env.invocations))
}

pub fn run(ctx: &mut Ctx) {
    ctx.rule = "1-5 targets (nested, punctuation, non-ASCII) with default or custom commands/argmaps directories x per (target, command) definition \
(by stem with varying extension / explicit path shared or own / `{}` definition / undefined) x decoy files and directories x base and named argmap files \
(present, absent, lacking the key) x --argmaps list (incl. names without file) x --no-base-argmaps x --args; argument strings with spaces, quotes, backslashes, \
newlines, unicode, empty strings. oracle over helper start records: cwd == target dir, exe == definition path or the stem match, argv == base ++ argmaps ++ args. \
non-trivial = >=2 argument sources for one task, or a custom directory / explicit definition; distinct by SHA-256"
        .to_string();
    ctx.assumptions = vec!["--args values never start with '-' (clap would parse them as flags)".into(), "no two files share a stem in one command directory".into()];
    let np = ctx.n(15000, 300_000);
    ctx.drive("inproc-plan", strategy, np, check_plan);
    let n = ctx.n(800, 12000);
    ctx.drive("run", strategy, n, check);
}

pub fn replay(ctx: &Ctx, label: &str, case: Value) -> Result<(), String> {
    let c: Case = serde_json::from_value(case).map_err(|e| e.to_string())?;
    let r = if label.contains("inproc") { check_plan(&c, 0) } else { check(&c, 0) };
    ctx.replay_one(label, &c, r);
    Ok(())
}
