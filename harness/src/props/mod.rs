pub mod c01;
pub mod c02;
pub mod c03;
pub mod c04;
pub mod c05;
pub mod c06;
pub mod c07;
pub mod c08;
pub mod c10;
pub mod c11;
pub mod c12;
pub mod c13;
pub mod c14;
pub mod c15;
pub mod c16;
pub mod c17;
pub mod c18;
pub mod c19;

use crate::runner::Ctx;
use serde_json::Value;

pub fn run(ctx: &mut Ctx, id: &str) -> bool {
    match id {
        "C01" => c01::run(ctx),
        "C02" => c02::run(ctx),
        "C03" => c03::run_c03(ctx),
        "C04" => c04::run(ctx),
        "C05" => c05::run(ctx),
        "C06" => c06::run(ctx),
        "C07" => c07::run(ctx),
        "C08" => c08::run(ctx),
        "C09" => c03::run_c09(ctx),
        "C10" => c10::run(ctx),
        "C11" => c11::run(ctx),
        "C12" => c12::run(ctx),
        "C13" => c13::run(ctx),
        "C14" => c14::run(ctx),
        "C15" => c15::run_c15(ctx),
        "C20" => c15::run_c20(ctx),
        "C16" => c16::run(ctx),
        "C17" => c17::run(ctx),
        "C18" => c18::run(ctx),
        "C19" => c19::run(ctx),
        _ => return false,
    }
    true
}

pub fn replay(ctx: &Ctx, id: &str, label: &str, case: Value) -> Result<(), String> {
    match id {
        "C01" => c01::replay(ctx, label, case),
        "C02" => c02::replay(ctx, label, case),
        "C03" => c03::replay(ctx, label, case, c03::Side::Acyclic),
        "C04" => c04::replay(ctx, label, case),
        "C05" => c05::replay(ctx, label, case),
        "C06" => c06::replay(ctx, label, case),
        "C07" => c07::replay(ctx, label, case),
        "C08" => c08::replay(ctx, label, case),
        "C09" => c03::replay(ctx, label, case, c03::Side::Cyclic),
        "C10" => c10::replay(ctx, label, case),
        "C11" => c11::replay(ctx, label, case),
        "C12" => c12::replay(ctx, label, case),
        "C13" => c13::replay(ctx, label, case),
        "C14" => c14::replay(ctx, label, case),
        "C15" => c15::replay_c15(ctx, label, case),
        "C20" => c15::replay_c20(ctx, label, case),
        "C16" => c16::replay(ctx, label, case),
        "C17" => c17::replay(ctx, label, case),
        "C18" => c18::replay(ctx, label, case),
        "C19" => c19::replay(ctx, label, case),
        _ => Err(format!("unknown property {}", id)),
    }
}
