//! C01 - change-to-target mapping is exact.

use crate::gen::{self, CycleMode};
use crate::model::{self, ConfigSpec};
use crate::runner::*;
use proptest::prelude::*;
use serde::{Deserialize, Serialize};
use serde_json::{json, Value};
use std::collections::{BTreeMap, BTreeSet};

#[derive(Debug, Clone, Serialize, Deserialize)]
pub struct Case {
    pub config: ConfigSpec,
    pub changes: Vec<String>,
    pub rot: usize,
}

pub fn strategy(max_targets: usize) -> impl Strategy<Value = Case> {
    (
        gen::raw_config(max_targets, 3, 3),
        gen::raw_changes(),
        any::<u16>(),
        0u8..10,
    )
        .prop_map(|(raw, rc, rot, any_mode)| {
            let mode = if any_mode == 0 {
                CycleMode::Any
            } else {
                CycleMode::Acyclic
            };
            let config = gen::build_config(&raw, mode);
            let mut seen = BTreeSet::new();
            let mut changes = vec![];
            for (k, a, b) in rc {
                let p = gen::change_path(&config, k, a, b);
                if seen.insert(p.clone()) {
                    changes.push(p);
                }
            }
            Case {
                config,
                changes,
                rot: rot as usize,
            }
        })
}

/// CLI variant: fewer changes (every one becomes a real file), acyclic configs only.
pub fn strategy_cli() -> impl Strategy<Value = Case> {
    (
        gen::raw_config(8, 3, 3),
        proptest::collection::vec((0u8..9, any::<u16>(), any::<u16>()), 0..=60),
    )
        .prop_map(|(raw, rc)| {
            let config = gen::build_config(&raw, CycleMode::Acyclic);
            let mut seen = BTreeSet::new();
            let mut changes = vec![];
            for (k, a, b) in rc {
                let p = gen::change_path(&config, k, a, b);
                if seen.insert(p.clone()) {
                    changes.push(p);
                }
            }
            Case { config, changes, rot: 0 }
        })
}

pub struct Parsed {
    pub targets: Vec<String>,
    /// per change: path -> [(target, reason)]
    pub changes: Vec<(String, Vec<(String, String)>)>,
    pub has_changes: bool,
    pub groups: Option<Vec<Vec<String>>>,
    pub checkpointed: bool,
}

pub fn parse_analyze(v: &Value) -> Result<Parsed, String> {
    let targets = v
        .get("targets")
        .and_then(|t| t.as_array())
        .ok_or("no targets array")?
        .iter()
        .map(|x| x.as_str().unwrap_or("").to_string())
        .collect();
    let mut changes = vec![];
    let has_changes = v.get("changes").is_some();
    if let Some(cs) = v.get("changes").and_then(|c| c.as_array()) {
        for c in cs {
            let path = c
                .get("path")
                .and_then(|p| p.as_str())
                .ok_or("change without path")?
                .to_string();
            let mut ts = vec![];
            if let Some(arr) = c.get("targets").and_then(|t| t.as_array()) {
                for t in arr {
                    ts.push((
                        t.get("path").and_then(|p| p.as_str()).unwrap_or("").to_string(),
                        t.get("reason").and_then(|p| p.as_str()).unwrap_or("").to_string(),
                    ));
                }
            }
            changes.push((path, ts));
        }
    }
    let groups = v.get("target_groups").and_then(|g| g.as_array()).map(|gs| {
        gs.iter()
            .map(|g| {
                g.as_array()
                    .map(|a| a.iter().map(|x| x.as_str().unwrap_or("").to_string()).collect())
                    .unwrap_or_default()
            })
            .collect()
    });
    Ok(Parsed {
        targets,
        changes,
        has_changes,
        groups,
        checkpointed: v.get("checkpointed").and_then(|b| b.as_bool()).unwrap_or(false),
    })
}

fn error_type(e: &str) -> String {
    serde_json::from_str::<Value>(e)
        .ok()
        .and_then(|v| v.get("type").and_then(|t| t.as_str()).map(|s| s.to_string()))
        .unwrap_or_else(|| "unparsed".to_string())
}

/// Judge an analyze output against the reference model.
pub fn judge(cfg: &ConfigSpec, changes: &[String], p: &Parsed, with_breakdown: bool) -> Result<(), CheckError> {
    // sorted and duplicate free
    for w in p.targets.windows(2) {
        if w[0] == w[1] {
            return viol("c01.summary.duplicate", format!("summary lists {} twice", w[0]));
        }
        if w[0] > w[1] {
            return viol(
                "c01.summary.unsorted",
                format!("summary not sorted: {:?} before {:?}", w[0], w[1]),
            );
        }
    }
    let reported: BTreeSet<String> = p.targets.iter().cloned().collect();
    let (must, may) = model::affected_many(cfg, changes.iter());
    if let Some(m) = must.difference(&reported).next() {
        let culprit = changes.iter().find(|c| model::affected(cfg, c).0.contains(m));
        return viol_obs(
            "c01.summary.missing",
            format!("target {:?} must be reported (change {:?}) but is not in the summary", m, culprit),
            json!({"reported": p.targets, "must": must}),
        );
    }
    if let Some(x) = reported.difference(&may).next() {
        // classify: byte-prefix confusion or something else
        let sig = if changes.iter().any(|c| {
            cfg.targets.iter().any(|t| {
                model::string_prefix_only(c, &t.path)
                    || t.uses.iter().any(|u| model::string_prefix_only(c, u))
                    || model::string_prefix_only(&t.path, x)
            })
        }) {
            "c01.summary.extra.prefix"
        } else {
            "c01.summary.extra"
        };
        return viol_obs(
            sig,
            format!("target {:?} is reported although no change affects it", x),
            json!({"reported": p.targets, "may": may}),
        );
    }
    if with_breakdown {
        if p.changes.len() != changes.len() {
            return viol(
                "c01.changes.count",
                format!("{} changes given, {} reported", changes.len(), p.changes.len()),
            );
        }
        let given: BTreeSet<&String> = changes.iter().collect();
        let mut union: BTreeSet<String> = BTreeSet::new();
        for (path, ts) in &p.changes {
            if !given.contains(path) {
                return viol("c01.changes.path", format!("reported change {:?} was not given", path));
            }
            let (must, may) = model::affected(cfg, path);
            let mut non_ignored = BTreeSet::new();
            let mut prev: Option<&String> = None;
            for (t, reason) in ts {
                if let Some(pv) = prev {
                    if pv > t {
                        return viol(
                            "c01.change.unsorted",
                            format!("targets of change {:?} not sorted", path),
                        );
                    }
                }
                prev = Some(t);
                if reason == "ignores" {
                    let ok = cfg.target(t).map(|ts| model::ignored(ts, path)).unwrap_or(false);
                    if !ok {
                        return viol(
                            "c01.change.ignores.wrong",
                            format!("change {:?}: target {:?} listed as ignoring it but does not", path, t),
                        );
                    }
                } else if reason == "target" || reason == "uses" {
                    non_ignored.insert(t.clone());
                } else {
                    return viol("c01.change.reason", format!("unknown reason {:?}", reason));
                }
            }
            if let Some(m) = must.difference(&non_ignored).next() {
                return viol_obs(
                    "c01.change.missing",
                    format!("change {:?}: target {:?} must be listed", path, m),
                    json!({"listed": ts}),
                );
            }
            if let Some(x) = non_ignored.difference(&may).next() {
                return viol_obs(
                    "c01.change.extra",
                    format!("change {:?}: target {:?} listed although not affected", path, x),
                    json!({"listed": ts}),
                );
            }
            union.extend(non_ignored);
        }
        if union != reported {
            return viol_obs(
                "c01.summary.ne.union",
                "summary differs from the union of the non-ignored per-change entries".to_string(),
                json!({"summary": p.targets, "union": union}),
            );
        }
    }
    Ok(())
}

pub fn nontrivial(cfg: &ConfigSpec, changes: &[String]) -> (bool, Vec<&'static str>) {
    let mut classes = vec![];
    let mut indirect = false;
    let mut veto = false;
    let mut sibling = false;
    let mut nested_uses = false;
    let mut tolerated = false;
    for c in changes {
        let (must, may) = model::affected(cfg, c);
        if must != may {
            tolerated = true;
        }
        for t in &cfg.targets {
            if must.contains(&t.path) && !model::inside(c, &t.path) {
                indirect = true;
                if !t.uses.iter().any(|u| model::inside(c, u)) {
                    nested_uses = true;
                }
            }
            if model::ignored(t, c)
                && (model::inside(c, &t.path) || t.uses.iter().any(|u| model::inside(c, u)))
            {
                veto = true;
            }
            if model::string_prefix_only(c, &t.path)
                || t.uses.iter().any(|u| model::string_prefix_only(c, u))
                || t.ignores.iter().any(|u| model::string_prefix_only(c, u))
            {
                sibling = true;
            }
        }
    }
    if indirect {
        classes.push("indirect-route");
    }
    if nested_uses {
        classes.push("nested-uses");
    }
    if veto {
        classes.push("ignore-veto");
    }
    if sibling {
        classes.push("prefix-sibling");
    }
    if tolerated {
        classes.push("tolerated-case");
    }
    match changes.len() {
        0 => classes.push("batches=0"),
        1..=50 => classes.push("batches=1"),
        51..=100 => classes.push("batches=2"),
        _ => classes.push("batches=3+"),
    }
    (indirect || veto || sibling, classes)
}

fn call(cfg_json: &str, changes: &[String], sc: bool, sct: bool, sg: bool) -> Result<Value, String> {
    let out = monorail::verif::analyze(
        cfg_json,
        Some(changes.to_vec()),
        sc,
        sct,
        sg,
        crate::scratch::universe(),
    )?;
    serde_json::from_str(&out).map_err(|e| format!("unparsable analyze output: {}", e))
}

pub fn check(case: &Case, _w: usize) -> CheckResult {
    let cfg = &case.config;
    let cfg_json = cfg.to_json();
    let adj = model::dep_adj(cfg);
    let all: Vec<usize> = (0..cfg.targets.len()).collect();
    let cyclic = model::has_cycle_reachable(&adj, &all);
    let v = match call(&cfg_json, &case.changes, true, true, false) {
        Ok(v) => v,
        Err(e) => {
            let ty = error_type(&e);
            if ty == "graph" {
                // cycle handling is the business of C03/C09, not of this property
                return Ok(CaseInfo::new(false).class(if cyclic {
                    "rejected-cyclic"
                } else {
                    "rejected-acyclic(C03)"
                }));
            }
            return viol("c01.error", format!("analyze failed: {}", e));
        }
    };
    let p = parse_analyze(&v).map_err(|e| Violation::new("c01.output", e))?;
    if !p.checkpointed {
        return viol("c01.checkpointed", "changes were given but checkpointed=false".into());
    }
    judge(cfg, &case.changes, &p, true)?;

    // metamorphic relations on the summary
    let base = p.targets.clone();
    let n = case.changes.len();
    let mut variants: Vec<(&str, Vec<String>)> = vec![];
    if n > 1 {
        let mut r = case.changes.clone();
        r.reverse();
        variants.push(("reversed", r));
        let mut rot = case.changes.clone();
        rot.rotate_left(case.rot % n);
        variants.push(("rotated", rot));
        let mut s = case.changes.clone();
        s.sort();
        variants.push(("sorted", s));
    }
    if n > 0 {
        let mut d = case.changes.clone();
        d.extend(case.changes.iter().cloned());
        variants.push(("duplicated", d));
    }
    for (name, ch) in variants {
        let v2 = call(&cfg_json, &ch, false, false, false)
            .map_err(|e| Violation::new("c01.metamorphic.error", format!("{} variant failed: {}", name, e)))?;
        let p2 = parse_analyze(&v2).map_err(|e| Violation::new("c01.output", e))?;
        if p2.targets != base {
            return viol_obs(
                "c01.metamorphic",
                format!("summary changes when the change list is {}", name),
                json!({"base": base, "variant": p2.targets}),
            );
        }
    }
    // split into singletons and re-unite
    if n > 1 && n <= 60 {
        let mut u = BTreeSet::new();
        for c in &case.changes {
            let v3 = call(&cfg_json, std::slice::from_ref(c), false, false, false)
                .map_err(|e| Violation::new("c01.metamorphic.error", e))?;
            let p3 = parse_analyze(&v3).map_err(|e| Violation::new("c01.output", e))?;
            u.extend(p3.targets);
        }
        let b: BTreeSet<String> = base.iter().cloned().collect();
        if u != b {
            return viol_obs(
                "c01.metamorphic.split",
                "union over single-change analyses differs from the batch analysis".into(),
                json!({"batch": base, "union": u}),
            );
        }
    }
    // flags do not change the summary
    let v4 = call(&cfg_json, &case.changes, true, false, false)
        .map_err(|e| Violation::new("c01.metamorphic.error", e))?;
    let p4 = parse_analyze(&v4).map_err(|e| Violation::new("c01.output", e))?;
    if p4.targets != base {
        return viol("c01.metamorphic.flags", "summary depends on --change-targets".into());
    }
    let mut got_paths: Vec<&String> = p4.changes.iter().map(|c| &c.0).collect();
    let mut want_paths: Vec<&String> = case.changes.iter().collect();
    got_paths.sort();
    want_paths.sort();
    if got_paths != want_paths {
        return viol("c01.changes.paths", "reported change paths differ from the given ones".into());
    }

    let (nt, classes) = nontrivial(cfg, &case.changes);
    let mut info = CaseInfo::new(nt);
    for c in classes {
        info = info.class(c);
    }
    Ok(info)
}

/// End-to-end sample: the same relation through a real repository and the real CLI.
pub fn check_cli(case: &Case, w: usize) -> CheckResult {
    let cfg = &case.config;
    let mut env = crate::bb::Env::new(w);
    env.install_config(cfg);
    if let Err(e) = crate::bb::commit_all_and_checkpoint(&mut env) {
        return inconclusive(e);
    }
    let created = crate::bb::create_files(&env, &case.changes, true);
    let o = env.mr(&["analyze", "--all"]);
    let Some(v) = o.json() else {
        if o.error_type() == "graph" {
            return Ok(CaseInfo::new(false).class("rejected(graph)").inv(env.invocations));
        }
        return viol_obs("c01.cli.error", "analyze --all failed".into(), o.brief());
    };
    let p = parse_analyze(&v).map_err(|e| Violation::new("c01.output", e))?;
    if !p.checkpointed {
        return viol("c01.checkpointed", "a checkpoint exists but checkpointed=false".into());
    }
    let mut got: Vec<String> = p.changes.iter().map(|c| c.0.clone()).collect();
    got.sort();
    let mut want = created.clone();
    want.sort();
    if got != want {
        return viol_obs(
            "c01.cli.changes",
            "the reported change paths are not exactly the files that were created".into(),
            json!({"reported": got, "created": want}),
        );
    }
    judge(cfg, &created, &p, true)?;
    if p.groups.is_none() {
        return viol("c01.cli.groups", "analyze --all printed no target_groups".into());
    }
    let (nt, classes) = nontrivial(cfg, &created);
    let mut info = CaseInfo::new(nt).inv(env.invocations);
    for c in classes {
        info = info.class(c);
    }
    Ok(info)
}

pub fn golden() -> Vec<Case> {
    let mk = |targets: Vec<(&str, Vec<&str>, Vec<&str>)>, changes: Vec<&str>| Case {
        config: ConfigSpec {
            targets: targets
                .into_iter()
                .map(|(p, u, i)| {
                    let mut t = crate::model::TargetSpec::new(p);
                    t.uses = u.into_iter().map(String::from).collect();
                    t.ignores = i.into_iter().map(String::from).collect();
                    t
                })
                .collect(),
            ..Default::default()
        },
        changes: changes.into_iter().map(String::from).collect(),
        rot: 1,
    };
    vec![
        // byte-prefix sibling must not flag `app`
        mk(vec![("app", vec![], vec![]), ("app2", vec![], vec![])], vec!["app2/f"]),
        // ancestors of a uses-affected nested target belong in the summary
        mk(
            vec![("a", vec![], vec![]), ("a/ab", vec!["lib/f"], vec![]), ("lib", vec![], vec![])],
            vec!["lib/f"],
        ),
        // ignore veto
        mk(vec![("a", vec!["lib"], vec!["lib/f"]), ("lib", vec![], vec![])], vec!["lib/f", "lib/g/h.rs"]),
    ]
}

pub fn run(ctx: &mut Ctx) {
    ctx.rule = "in-process: config (<=10 targets over a byte-prefix-heavy alphabet; uses/ignores of every listed shape; \
any declaration order) x 0..400 distinct change paths biased to the batch size 50; oracle: reference model `affected` \
(must<=reported<=may), per-change breakdown, summary==union, metamorphic order/duplication/split/flags. \
CLI: same relation through a real repository. non-trivial = some change reaches a target by a non-own-directory \
route (uses / nested uses / ignore veto) or a string-prefix sibling is present; distinct by SHA-256 of the case"
        .to_string();
    ctx.assumptions = vec![
        "change paths are normalized relative paths".into(),
        "configs rejected with a graph error are not judged here (C03/C09)".into(),
    ];
    ctx.drive_all("golden", golden(), "golden regression cases", check);
    let n = ctx.n(12_000, 500_000);
    ctx.drive("inproc", || strategy(10), n, check);
    let n2 = ctx.n(1_000, 50_000);
    ctx.drive("inproc-wide", || strategy(24), n2, check);
    ctx.drive_all("golden-cli", golden(), "golden regression cases (CLI)", check_cli);
    let n3 = ctx.n(150, 3000);
    ctx.drive("cli", || strategy_cli(), n3, check_cli);
}

pub fn replay(ctx: &Ctx, label: &str, case: Value) -> Result<(), String> {
    let _ = label;
    let c: Case = serde_json::from_value(case).map_err(|e| e.to_string())?;
    let r = if label.contains("cli") { check_cli(&c, 0) } else { check(&c, 0) };
    ctx.replay_one(label, &c, r);
    Ok(())
}

#[allow(dead_code)]
fn _unused(_: BTreeMap<String, String>) {}
