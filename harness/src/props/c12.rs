//! C12 - latest-run addressing and bounded retention hold over any run history.

use crate::bb::{self, Behavior, Env, LogBlock, Step};
use crate::model::{ConfigSpec, TargetSpec};
use crate::runner::*;
use proptest::collection::vec;
use proptest::prelude::*;
use serde::{Deserialize, Serialize};
use serde_json::{json, Value};
use std::collections::{BTreeMap, BTreeSet};

#[derive(Debug, Clone, Serialize, Deserialize)]
pub struct RunSpec {
    pub commands: Vec<String>,
    /// empty = no -t (all targets, one group)
    pub targets: Vec<String>,
    /// (command, target, exit code) of a failing task; forces -t
    pub fail: Option<(String, String, i32)>,
    /// (command, target) that write nothing to stderr / stdout
    pub quiet_err: Vec<(String, String)>,
    pub quiet_out: Vec<(String, String)>,
    pub lines: usize,
    /// an invocation that aborts before it completes (1 = malformed argmap file, 2 = undefined sequence);
    /// it is not a completed run, so nothing the APIs show may change
    #[serde(default)]
    pub abort: u8,
    /// a run with nothing to do: 1 = a sequence that expands to no command, 2 = change-driven run
    /// right after `checkpoint update -p` (no changed target)
    #[serde(default)]
    pub nothing_to_do: u8,
}

#[derive(Debug, Clone, Serialize, Deserialize)]
pub struct Case {
    pub max_retained: usize,
    pub ntargets: usize,
    pub runs: Vec<RunSpec>,
}

const CMDS: [&str; 3] = ["c0", "c1", "c2"];

pub fn strategy() -> impl Strategy<Value = Case> {
    // mostly small rings; one case in twelve has a two-digit ring (9-12 slots, 10 being the default
    // that a configuration may leave out) and a history just long enough to wrap
    (prop_oneof![11 => 1usize..=5, 1 => 9usize..=12], 2usize..=4)
        .prop_flat_map(|(m, nt)| {
            let run = (
                proptest::sample::subsequence(CMDS.to_vec(), 1..=3),
                proptest::sample::subsequence((0..nt).collect::<Vec<_>>(), 0..=nt),
                proptest::option::weighted(0.25, (any::<u16>(), any::<u16>(), 1i32..=200)),
                vec((any::<u16>(), any::<u16>()), 0..=2),
                vec((any::<u16>(), any::<u16>()), 0..=1),
                1usize..=3,
                prop_oneof![5 => Just(0u8), 1 => Just(1u8), 1 => Just(2u8)],
                prop_oneof![6 => Just(0u8), 1 => Just(1u8), 1 => Just(2u8)],
            );
            let len = if m >= 9 { (m + 1)..=(m + 4) } else { 1..=(3 * m + 3) };
            (Just(m), Just(nt), vec(run, len))
        })
        .prop_map(|(m, nt, rruns)| {
            let tname = |i: usize| format!("t{}", i);
            let runs = rruns
                .into_iter()
                .map(|(cmds, tsel, fail, qe, qo, lines, abort, nothing_to_do)| {
                    let commands: Vec<String> = cmds.iter().map(|s| s.to_string()).collect();
                    let mut targets: Vec<String> = tsel.iter().map(|&i| tname(i)).collect();
                    let all: Vec<String> = (0..nt).map(tname).collect();
                    let pool = if targets.is_empty() { all.clone() } else { targets.clone() };
                    let fail = fail.map(|(a, b, code)| {
                        (commands[pick(a, commands.len())].clone(), pool[pick(b, pool.len())].clone(), code)
                    });
                    if fail.is_some() && targets.is_empty() {
                        targets = all.clone();
                    }
                    let q = |v: Vec<(u16, u16)>| -> Vec<(String, String)> {
                        v.into_iter()
                            .map(|(a, b)| (commands[pick(a, commands.len())].clone(), pool[pick(b, pool.len())].clone()))
                            .collect()
                    };
                    let quiet_err = q(qe);
                    let quiet_out = q(qo);
                    RunSpec {
                        commands,
                        targets,
                        fail,
                        quiet_err,
                        quiet_out,
                        lines,
                        abort: if nothing_to_do != 0 { 0 } else { abort },
                        nothing_to_do,
                    }
                })
                .collect();
            Case {
                max_retained: m,
                ntargets: nt,
                runs,
            }
        })
}

/// A history around one very wide run (hundreds of targets x 3 commands: a result document of
/// more than 100 KB and thousands of log files).
pub fn wide_cases(thorough: bool) -> Vec<Case> {
    let small = |t: &str, lines: usize| RunSpec {
        commands: vec![CMDS[0].to_string()],
        targets: vec![t.to_string()],
        fail: None,
        quiet_err: vec![],
        quiet_out: vec![],
        lines,
        abort: 0,
        nothing_to_do: 0,
    };
    let wide = RunSpec {
        commands: CMDS.iter().map(|s| s.to_string()).collect(),
        targets: vec![],
        fail: None,
        quiet_err: vec![],
        quiet_out: vec![],
        lines: 1,
        abort: 0,
        nothing_to_do: 0,
    };
    let sizes: &[usize] = if thorough { &[350, 900] } else { &[350] };
    sizes
        .iter()
        .map(|&n| Case {
            max_retained: 2,
            ntargets: n,
            runs: vec![small("t1", 2), wide.clone(), small("t0", 1), small("t2", 3)],
        })
        .collect()
}

type Logs = BTreeSet<LogBlock>;

fn show_logs(env: &mut Env, id: Option<&str>) -> Result<Result<Logs, String>, CheckError> {
    let mut args = vec!["log", "show", "--stdout", "--stderr"];
    if let Some(i) = id {
        args.push("--id");
        args.push(i);
    }
    let o = env.mr(&args);
    if !o.ok() {
        return Ok(Err(o.stderr_str()));
    }
    let (pre, blocks) = bb::parse_blocks(&o.stdout);
    if !pre.is_empty() {
        return viol_obs(
            "c12.logshow.preamble",
            "log show printed bytes before the first header".into(),
            json!({"pre": String::from_utf8_lossy(&pre)}),
        );
    }
    let mut set = BTreeSet::new();
    for b in blocks {
        let k = (b.stream.clone(), b.target.clone(), b.command.clone());
        if set.iter().any(|x: &LogBlock| (x.stream.clone(), x.target.clone(), x.command.clone()) == k) {
            return viol("c12.logshow.duplicate-header", format!("two blocks for {:?}", k));
        }
        set.insert(b);
    }
    Ok(Ok(set))
}

pub fn check(case: &Case, w: usize) -> CheckResult {
    let cfg = ConfigSpec {
        targets: (0..case.ntargets).map(|i| TargetSpec::new(&format!("t{}", i))).collect(),
        // 10 is the documented default: such configurations leave the setting out
        max_retained_runs: if case.max_retained == 10 { None } else { Some(case.max_retained) },
        sequences: [("nothing".to_string(), vec![])].into_iter().collect(),
        ..Default::default()
    };
    let mut env = Env::new(w);
    env.install_config(&cfg);
    let uses_git = case.runs.iter().any(|r| r.nothing_to_do == 2);
    if uses_git {
        env.write_file(".gitignore", b"monorail-out/\n");
        if let Err(e) = env.git_init().and_then(|_| env.git_ok(&["add", "-A"]).map(|_| ())).and_then(|_| env.git_ok(&["commit", "-q", "-m", "init"]).map(|_| ())) {
            return inconclusive(e);
        }
    }
    for c in CMDS {
        for t in &cfg.targets {
            env.install_command(&bb::simple_cmd_file(&cfg, &t.path, c), true);
        }
    }
    // history of completed runs: (slot id, printed doc, logs, (command,target) set)
    let mut history: Vec<(String, Value, Logs, BTreeSet<(String, String)>)> = vec![];
    let mut slot_reuse_differs = false;
    let mut aborted = 0;
    let mut nothing_runs = 0;
    let mut tainted: BTreeSet<String> = BTreeSet::new();
    for (k, r) in case.runs.iter().enumerate() {
        let pool: Vec<String> = if r.targets.is_empty() { cfg.target_paths() } else { r.targets.clone() };
        let mut plan = BTreeMap::new();
        let mut expect_bytes: BTreeMap<(String, String, String), Vec<u8>> = BTreeMap::new();
        for c in &r.commands {
            for t in &pool {
                let key = (c.clone(), t.clone());
                let mk = |stream: &str| -> Vec<u8> {
                    let mut v = vec![];
                    for j in 0..r.lines {
                        v.extend_from_slice(format!("r{}|{}|{}|{}|line{}\n", k, c, t, stream, j).as_bytes());
                    }
                    v
                };
                let out = if r.quiet_out.contains(&key) { vec![] } else { mk("stdout") };
                let err = if r.quiet_err.contains(&key) { vec![] } else { mk("stderr") };
                let exit = match &r.fail {
                    Some((fc, ft, code)) if fc == c && ft == t => *code,
                    _ => 0,
                };
                plan.insert(
                    (bb::simple_cmd_file(&cfg, t, c), t.clone()),
                    Behavior {
                        exit,
                        out: if out.is_empty() { vec![] } else { vec![Step::W(out.clone())] },
                        err: if err.is_empty() { vec![] } else { vec![Step::W(err.clone())] },
                        ..Default::default()
                    },
                );
                expect_bytes.insert(("stdout".into(), t.clone(), c.clone()), out);
                expect_bytes.insert(("stderr".into(), t.clone(), c.clone()), err);
            }
        }
        env.set_plan(&plan);
        let mut args: Vec<String> = vec!["run".into(), "-c".into()];
        args.extend(r.commands.iter().cloned());
        if !r.targets.is_empty() {
            args.push("-t".into());
            args.extend(r.targets.iter().cloned());
        }
        let mut had_checkpoint = false;
        if r.nothing_to_do == 1 {
            args = vec!["run".into(), "-s".into(), "nothing".into()];
        } else if r.nothing_to_do == 2 {
            // commit everything the earlier runs may have left, checkpoint, and run without -t
            let _ = env.git_ok(&["add", "-A"]);
            let _ = env.git_ok(&["commit", "-q", "--allow-empty", "-m", "sync"]);
            let o = env.mr(&["checkpoint", "update", "-p"]);
            if !o.ok() {
                return inconclusive(format!("checkpoint update failed: {}", o.brief()));
            }
            had_checkpoint = true;
            args = vec!["run".into(), "-c".into()];
            args.extend(r.commands.iter().cloned());
        }
        if r.abort != 0 && case.max_retained >= 2 {
            // an invocation that must fail before completing (with a single slot the aborted
            // invocation necessarily reuses the slot of the last run; the statement's
            // crash-safety sibling C13 is also limited to max_retained_runs >= 2)
            if r.abort == 1 {
                for t in &cfg.targets {
                    env.write_file(&format!("{}/monorail/argmap/broken.json", t.path), b"{ this is not json");
                }
                args.push("--argmaps".into());
                args.push("broken".into());
            } else {
                args.push("-s".into());
                args.push("no-such-sequence".into());
            }
            let argv: Vec<&str> = args.iter().map(|s| s.as_str()).collect();
            let out = env.mr(&argv);
            if out.code == Some(0) {
                return inconclusive(format!("an invocation that should abort succeeded: {}", out.brief()));
            }
            aborted += 1;
            // the aborted invocation may have claimed and wiped one of the older slots (which one is
            // not modelled): `--id` of older runs is not judged until their slot is used again
            if let Some(last) = history.last() {
                let keep = last.0.clone();
                for h in history.iter() {
                    if h.0 != keep {
                        tainted.insert(h.0.clone());
                    }
                }
            }
            // everything must still show the last completed run
            if let Some((_, last_doc, last_logs, _)) = history.last() {
                let rs = env.mr(&["result", "show"]);
                match rs.json() {
                    Some(rv) if bb::strip_timestamp(&rv) == bb::strip_timestamp(last_doc) => {}
                    _ => {
                        return viol_obs(
                            "c12.result.show.after.abort",
                            format!("after invocation {} aborted, `result show` no longer returns the last completed run", k),
                            rs.brief(),
                        )
                    }
                }
                match show_logs(&mut env, None)? {
                    Ok(shown) if &shown == last_logs => {}
                    Ok(shown) => {
                        return viol_obs(
                            "c12.logshow.after.abort",
                            format!("after invocation {} aborted, `log show` no longer shows the last completed run", k),
                            json!({"expected": blocks_brief(last_logs), "shown": blocks_brief(&shown)}),
                        )
                    }
                    Err(e) => return viol("c12.logshow.after.abort", format!("log show failed after an aborted invocation: {}", e)),
                }
            }
            continue;
        }
        let argv: Vec<&str> = args.iter().map(|s| s.as_str()).collect();
        // a fifth of the failing tasks fail because their command file has lost its x bit
        // (status `not_executable`) instead of exiting non-zero
        let noexec = match &r.fail {
            Some((fc, ft, code)) if code % 5 == 0 => Some(env.path(&bb::simple_cmd_file(&cfg, ft, fc))),
            _ => None,
        };
        if let Some(f) = &noexec {
            use std::os::unix::fs::PermissionsExt;
            let _ = std::fs::set_permissions(f, std::fs::Permissions::from_mode(0o644));
        }
        let out = env.mr(&argv);
        if let Some(f) = &noexec {
            use std::os::unix::fs::PermissionsExt;
            let _ = std::fs::set_permissions(f, std::fs::Permissions::from_mode(0o755));
        }
        let Some(doc) = out.json() else {
            return inconclusive(format!("run {} produced no JSON: {}", k, out.brief()));
        };
        let run = bb::parse_run(&doc).map_err(|e| Violation::new("c12.output", e))?;
        if r.nothing_to_do != 0 {
            let listed: usize = run.results.iter().map(|c| c.1.iter().map(|g| g.len()).sum::<usize>()).sum();
            if listed != 0 || run.failed {
                return inconclusive(format!("a run with nothing to do listed {} targets", listed));
            }
            nothing_runs += 1;
        } else if run.failed != r.fail.is_some() {
            return inconclusive(format!("run {}: failed={} unexpected", k, run.failed));
        }
        let slot = std::path::Path::new(&run.run_path)
            .file_name()
            .map(|s| s.to_string_lossy().to_string())
            .unwrap_or_default();
        // expected logs: non-empty logs of the tasks that were started
        let mut logs: Logs = BTreeSet::new();
        let mut pairs = BTreeSet::new();
        for (cmd, groups) in &run.results {
            for g in groups {
                for (t, tr) in g {
                    pairs.insert((cmd.clone(), t.clone()));
                    if tr.status == "success" || (tr.status == "error" && tr.code.is_some()) {
                        for stream in ["stdout", "stderr"] {
                            let b = expect_bytes.get(&(stream.to_string(), t.clone(), cmd.clone())).cloned().unwrap_or_default();
                            if !b.is_empty() {
                                logs.insert(LogBlock {
                                    stream: stream.into(),
                                    target: t.clone(),
                                    command: cmd.clone(),
                                    bytes: b,
                                });
                            }
                        }
                    }
                }
            }
        }
        if had_checkpoint {
            let _ = env.mr(&["checkpoint", "delete"]);
        }
        if let Some(prev) = history.iter().rev().find(|h| h.0 == slot) {
            if prev.3 != pairs {
                slot_reuse_differs = true;
            }
        }
        history.retain(|h| h.0 != slot);
        tainted.remove(&slot);
        history.push((slot.clone(), doc.clone(), logs.clone(), pairs));

        // result show == the document this run printed
        let rs = env.mr(&["result", "show"]);
        let Some(rv) = rs.json() else {
            return viol_obs("c12.result.show.failed", format!("result show failed after run {}", k), rs.brief());
        };
        if bb::strip_timestamp(&rv) != bb::strip_timestamp(&doc) {
            return viol_obs(
                "c12.result.show.differs",
                format!("after run {} `result show` does not return the document that run printed", k),
                json!({"printed": bb::strip_timestamp(&doc), "shown": bb::strip_timestamp(&rv)}),
            );
        }
        // log show == exactly this run's logs
        match show_logs(&mut env, None)? {
            Ok(shown) => {
                if shown != logs {
                    let stale = shown.iter().any(|b| !String::from_utf8_lossy(&b.bytes).contains(&format!("r{}|", k)) && !b.bytes.is_empty());
                    return viol_obs(
                        if stale { "c12.logshow.stale" } else { "c12.logshow.differs" },
                        format!("after run {} `log show` does not show exactly that run's logs", k),
                        json!({"expected": blocks_brief(&logs), "shown": blocks_brief(&shown)}),
                    );
                }
            }
            Err(e) => {
                return viol("c12.logshow.failed", format!("log show failed after run {}: {}", k, e));
            }
        }
        // the last min(k+1, M) runs by id
        let keep = case.max_retained.min(history.len());
        let recent: Vec<_> = history.iter().rev().take(keep).cloned().collect();
        for (slot_id, _doc, lg, _) in &recent {
            if tainted.contains(slot_id) {
                continue;
            }
            match show_logs(&mut env, Some(slot_id))? {
                Ok(shown) => {
                    if &shown != lg {
                        return viol_obs(
                            "c12.logshow.id",
                            format!("after run {} `log show --id {}` no longer shows the run stored under that id", k, slot_id),
                            json!({"expected": blocks_brief(lg), "shown": blocks_brief(&shown)}),
                        );
                    }
                }
                Err(e) => {
                    return viol("c12.logshow.id.failed", format!("log show --id {} failed: {}", slot_id, e));
                }
            }
        }
        if history.len() > case.max_retained {
            return viol(
                "c12.retention.ids",
                format!("{} distinct run ids in use with max_retained_runs={}", history.len(), case.max_retained),
            );
        }
        // a query for an id that no retained run has (one above the highest slot): whatever it
        // answers (the statement is silent on that), it must leave nothing behind - the directory
        // bound below is checked after it
        if k % 2 == 1 {
            let beyond = (case.max_retained + 1).to_string();
            let _ = env.mr(&["log", "show", "--stdout", "--stderr", "--id", &beyond]);
        }
        let dirs = std::fs::read_dir(env.path("monorail-out/run")).map(|rd| rd.flatten().filter(|e| e.path().is_dir()).count()).unwrap_or(0);
        if dirs > case.max_retained {
            return viol(
                "c12.retention.dirs",
                format!("{} run directories exist with max_retained_runs={}", dirs, case.max_retained),
            );
        }
    }
    let wraps = case.runs.len().saturating_sub(1) / case.max_retained;
    Ok(CaseInfo::new(case.runs.len() > case.max_retained && slot_reuse_differs)
        .class(&format!("M={}", case.max_retained))
        .class(&format!("wraps={}", wraps.min(2)))
        .class_if(case.runs.iter().any(|r| r.fail.is_some()), "has-failed-run")
        .class_if(slot_reuse_differs, "slot-reuse-with-different-tasks")
        .class_if(aborted > 0, "aborted-invocations")
        .class_if(nothing_runs > 0, "runs-with-nothing-to-do")
        .inv(env.invocations))
}

fn blocks_brief(l: &Logs) -> Value {
    Value::Array(
        l.iter()
            .map(|b| json!({"stream": b.stream, "target": b.target, "command": b.command, "bytes": String::from_utf8_lossy(&b.bytes)}))
            .collect(),
    )
}

pub fn run(ctx: &mut Ctx) {
    ctx.rule = "max_retained_runs M in 1..5 x a history of 1..3M+3 runs (one case in twelve: M in 9..12 - 10 by leaving the setting out - and M+1..M+4 runs), each with its own command subset, target selection, per-task output tagged with the run number, \
silent streams, (25%) one failing task (a fifth of them by a command file without the x bit), and (2 in 8) completed runs that have nothing to do (a sequence expanding to no command; a change-driven run right after `checkpoint update -p`), and (2 in 7) invocations that abort before completing (malformed argmap file, undefined sequence) after which everything must still show the last completed run. model: the ids in use and, per id, the document and logs of its latest occupant. after every run: `result show` == printed document \
(modulo timestamp); `log show` == exactly that run's non-empty logs as a set of (header, bytes) blocks; `log show --id` for each of the last min(k,M) runs; <= M ids and directories. \
non-trivial = history longer than M in which two runs sharing an id differ in their (command,target) sets; distinct by SHA-256"
        .to_string();
    ctx.assumptions = vec![
        "runs with a failing task use -t so that no sibling shares its group (sibling cancellation would truncate logs)".into(),
        "the id of a run is read from out.run.path of its printed document".into(),
        "aborting invocations are generated for max_retained_runs >= 2 only; after one, `--id` of older runs is not judged until their slot is reused".into(),
    ];
    let n = ctx.n(150, 3000);
    ctx.drive("history", strategy, n, check);
    ctx.drive_all("wide-run", wide_cases(ctx.thorough()), "a history with one run over 350 (thorough: 900) targets x 3 commands between small runs", check);
}

pub fn replay(ctx: &Ctx, label: &str, case: Value) -> Result<(), String> {
    let c: Case = serde_json::from_value(case).map_err(|e| e.to_string())?;
    let r = check(&c, 0);
    ctx.replay_one(label, &c, r);
    Ok(())
}
