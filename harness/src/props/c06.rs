//! C06 - failure stops the run; statuses, failed flag and exit code are truthful.

use crate::bb::{self, Behavior, Env, Trace};
use crate::gen;
use crate::model::ConfigSpec;
use crate::runner::*;
use proptest::collection::vec;
use proptest::prelude::*;
use serde::{Deserialize, Serialize};
use serde_json::{json, Value};
use std::collections::BTreeMap;

#[derive(Debug, Clone, Serialize, Deserialize, PartialEq)]
pub enum Fault {
    Exit(i32),
    NotExecutable,
    Undefined,
    /// the executable is killed by this signal (it never exits by itself)
    Signal(i32),
}

#[derive(Debug, Clone, Serialize, Deserialize)]
pub struct Case {
    pub config: ConfigSpec,
    pub commands: Vec<String>,
    pub faults: Vec<(String, String, Fault)>,
    pub fail_on_undefined: bool,
    pub sleeps: Vec<(String, String, u64)>,
    /// internal delays at guarded points (name, ms)
    pub delays: Vec<(String, u64)>,
    /// bit k: the k-th installed command file is a symbolic link to the real script
    #[serde(default)]
    pub symlinks: u32,
    /// bit k: the k-th installed executable leaves a silent background process behind that
    /// keeps its stdout/stderr open for 1.2-2.2 s after it has exited
    #[serde(default)]
    pub lingers: u32,
}

pub const DELAY_POINTS: [&str; 8] = [
    "run.compressor.shutdown",
    "run.group.drained",
    "run.group.spawned",
    "run.group.end",
    "run.exec.begin",
    "run.exec.end",
    "run.result.stored",
    "run.slot.ready",
];

pub fn strategy() -> impl Strategy<Value = Case> {
    (
        vec(1usize..=4, 1..=4),
        vec(any::<u16>(), 12),
        1usize..=3,
        vec((any::<u16>(), any::<u16>(), 0u8..9, 1i32..=255), 0..=3),
        any::<bool>(),
        vec(0u64..40, 24),
        vec((0usize..DELAY_POINTS.len(), 0u64..60), 0..=3),
        0u8..4,
        (
            prop_oneof![1 => Just(0u32), 1 => any::<u32>()],
            prop_oneof![3 => Just(0u32), 1 => any::<u32>().prop_map(|x| x & 0x0421_0842)],
            proptest::option::weighted(0.2, any::<u16>()),
        ),
    )
        .prop_map(|(layers, picks, ncmd, rfaults, fou, rnd, rdelays, sleep_mode, (symlinks, lingers, ghost))| {
            let config = gen::layered_config(&layers, &picks);
            let n = config.targets.len();
            let commands: Vec<String> = (0..ncmd).map(|i| format!("c{}", i)).collect();
            let mut faults: Vec<(String, String, Fault)> = vec![];
            for (a, b, kind, code) in rfaults {
                let c = commands[pick(a, ncmd)].clone();
                let t = config.targets[pick(b, n)].path.clone();
                if faults.iter().any(|f| f.0 == c && f.1 == t) {
                    continue;
                }
                let f = match kind {
                    0..=3 => Fault::Exit(if kind == 0 { 255 } else if kind == 1 { 1 } else { code }),
                    4 | 5 => Fault::NotExecutable,
                    6 | 7 => Fault::Undefined,
                    _ => Fault::Signal(if code % 2 == 0 { 9 } else { 15 }),
                };
                faults.push((c, t, f));
            }
            // one case in five: a command that no target defines at all (a typo, an optional step)
            if let Some(g) = ghost {
                let c = commands[pick(g, ncmd)].clone();
                faults.retain(|f| f.0 != c);
                for t in &config.targets {
                    faults.push((c.clone(), t.path.clone(), Fault::Undefined));
                }
            }
            let mut sleeps = vec![];
            let mut k = 0;
            for c in &commands {
                for t in &config.targets {
                    k += 1;
                    let ms = if sleep_mode == 0 { 0 } else { rnd[k % rnd.len()] };
                    sleeps.push((c.clone(), t.path.clone(), ms));
                }
            }
            let mut delays: Vec<(String, u64)> = vec![];
            for (p, ms) in rdelays {
                if !delays.iter().any(|d| d.0 == DELAY_POINTS[p]) {
                    delays.push((DELAY_POINTS[p].to_string(), ms));
                }
            }
            Case {
                config,
                commands,
                faults,
                fail_on_undefined: fou,
                sleeps,
                delays,
                symlinks,
                lingers,
            }
        })
}

fn fault_of<'a>(case: &'a Case, c: &str, t: &str) -> Option<&'a Fault> {
    case.faults.iter().find(|f| f.0 == c && f.1 == t).map(|f| &f.2)
}

fn counts(case: &Case, f: Option<&Fault>) -> bool {
    match f {
        None => false,
        Some(Fault::Exit(_)) | Some(Fault::NotExecutable) => true,
        Some(Fault::Undefined) => case.fail_on_undefined,
        // the statement is silent on whether a signal death fails the run: such cases are judged
        // for truthfulness only (see `check`)
        Some(Fault::Signal(_)) => false,
    }
}

pub fn check(case: &Case, w: usize) -> CheckResult {
    let cfg = &case.config;
    let mut env = Env::new(w);
    env.install_config(cfg);
    let mut plan = BTreeMap::new();
    for (c, t, ms) in &case.sleeps {
        let f = fault_of(case, c, t);
        if f == Some(&Fault::Undefined) {
            continue;
        }
        let file = bb::simple_cmd_file(cfg, t, c);
        let nth = plan.len();
        if case.symlinks >> (nth % 32) & 1 == 1 {
            // the x bit that counts is the one of the file the link points to
            env.install_command_symlink(&file, &format!("tools/linked/{}-{}.sh", c, nth), f != Some(&Fault::NotExecutable));
        } else {
            env.install_command(&file, f != Some(&Fault::NotExecutable));
            if f != Some(&Fault::NotExecutable) {
                // executable files come with all sorts of modes: for everybody, for the owner
                // only (chmod u+x, umask 077), for owner and group, without write permission
                use std::os::unix::fs::PermissionsExt;
                let mode = [0o755, 0o700, 0o744, 0o750, 0o754, 0o711, 0o555, 0o500][nth % 8];
                let _ = std::fs::set_permissions(env.path(&file), std::fs::Permissions::from_mode(mode));
            }
        }
        let exit = match f {
            Some(Fault::Exit(k)) => *k,
            _ => 0,
        };
        plan.insert(
            (file, t.clone()),
            Behavior {
                exit,
                kill_self: match f {
                    Some(Fault::Signal(s)) => Some(*s),
                    _ => None,
                },
                linger_ms: if case.lingers >> (nth % 32) & 1 == 1 { 1200 + (*ms * 25) % 1000 } else { 0 },
                sleep_ms: *ms,
                // every fifth executable prints bytes that are not valid UTF-8 (a Latin-1 message)
                out: vec![bb::Step::W(if nth % 5 == 2 {
                    let mut b = format!("out {} {} caf", c, t).into_bytes();
                    b.extend_from_slice(b"\xe9 \xff\xfe\n");
                    b
                } else {
                    format!("out {} {}\n", c, t).into_bytes()
                })],
                ..Default::default()
            },
        );
    }
    env.set_plan(&plan);
    let mut args: Vec<String> = vec!["run".into(), "-c".into()];
    args.extend(case.commands.iter().cloned());
    if case.fail_on_undefined {
        args.push("--fail-on-undefined".into());
    }
    let argv: Vec<&str> = args.iter().map(|s| s.as_str()).collect();
    let points = case
        .delays
        .iter()
        .map(|(p, ms)| format!("{}=delay:{}", p, ms))
        .collect::<Vec<_>>()
        .join(",");
    let envv: Vec<(&str, String)> = if points.is_empty() { vec![] } else { vec![("MRV_POINTS", points)] };
    let out = env.mr_env(&argv, &envv, std::time::Duration::from_secs(120));
    if out.timed_out {
        return inconclusive("run timed out".into());
    }
    let any_counting = case
        .faults
        .iter()
        .any(|f| counts(case, Some(&f.2)));
    let Some(doc) = out.json() else {
        let sig = if out.stderr_str().contains("channel closed") {
            "c06.fatal.channel-closed"
        } else {
            "c06.fatal"
        };
        return viol_obs(
            sig,
            format!(
                "run ended fatally (exit {:?}) although no fault in the plan is fatal; {} counting faults planned",
                out.code,
                case.faults.iter().filter(|f| counts(case, Some(&f.2))).count()
            ),
            out.brief(),
        );
    };
    let run = bb::parse_run(&doc).map_err(|e| Violation::new("c06.output", e))?;
    let traces = env.traces();
    let mut by_key: BTreeMap<(String, String), Vec<&Trace>> = BTreeMap::new();
    for t in &traces {
        by_key.entry(bb::trace_key(&env, t)).or_default().push(t);
    }
    if case.faults.iter().any(|f| matches!(f.2, Fault::Signal(_))) {
        // truthfulness only: whatever the run decides about a child killed by a signal, it must
        // not call it `success`, and every other entry must still match what the helper recorded
        let mut killed_started = false;
        for (cmd, groups) in &run.results {
            for g in groups {
                for (t, r) in g {
                    let key = (cmd.clone(), t.clone());
                    let trs = by_key.get(&key).map(|v| v.as_slice()).unwrap_or(&[]);
                    let signalled = matches!(fault_of(case, cmd, t), Some(Fault::Signal(_)));
                    if signalled && !trs.is_empty() {
                        killed_started = true;
                    }
                    match r.status.as_str() {
                        "success" => {
                            if !(trs.len() == 1 && trs[0].exit_code == Some(0)) {
                                return viol_obs(
                                    if signalled { "c06.signal.success" } else { "c06.success.untruthful" },
                                    format!("{:?} reported success without a process that ran to completion with exit 0", key),
                                    json!({"traces": trs, "fault": fault_of(case, cmd, t)}),
                                );
                            }
                        }
                        "error" => {
                            if let Some(code) = r.code {
                                if !(trs.len() == 1 && trs[0].exit_code == Some(code)) {
                                    return viol_obs(
                                        "c06.error.code",
                                        format!("{:?} reported error code {} but the process did not exit with it", key, code),
                                        json!({"traces": trs}),
                                    );
                                }
                            }
                        }
                        "undefined" | "not_executable" | "skipped" => {
                            if !trs.is_empty() {
                                return viol("c06.nostart.started", format!("{:?} reported {} but a process was started", key, r.status));
                            }
                        }
                        _ => {}
                    }
                }
            }
        }
        return Ok(CaseInfo::new(killed_started).class("fault=signal").inv(env.invocations));
    }
    // locate the first failing (command, group) in plan order, as the result shows the plan
    let mut first_fail: Option<(usize, usize)> = None;
    'outer: for (ci, (cmd, groups)) in run.results.iter().enumerate() {
        for (gi, g) in groups.iter().enumerate() {
            for t in g.keys() {
                if counts(case, fault_of(case, cmd, t)) {
                    first_fail = Some((ci, gi));
                    break 'outer;
                }
            }
        }
    }
    if first_fail.is_none() && any_counting && (!run.failed || out.code == Some(0)) {
        // every target and every requested command is part of this run (no checkpoint, no -t): a
        // counting fault cannot be left out of it
        return viol_obs(
            "c06.failed.flag",
            format!("failed={} and exit status {:?} although a counting fault was planned (the result document does not even list it)", run.failed, out.code),
            json!({"faults": case.faults, "fail_on_undefined": case.fail_on_undefined, "commands_in_result": run.results.iter().map(|r| r.0.clone()).collect::<Vec<_>>()}),
        );
    }
    if first_fail.is_some() != any_counting {
        return inconclusive("a planned fault is not part of the plan shown in the result".into());
    }
    // flag and exit status
    if run.failed != any_counting {
        return viol_obs(
            "c06.failed.flag",
            format!("failed={} but a counting fault {} planned", run.failed, if any_counting { "was" } else { "was not" }),
            json!({"faults": case.faults, "fail_on_undefined": case.fail_on_undefined}),
        );
    }
    let want_code = if any_counting { 1 } else { 0 };
    if out.code != Some(want_code) {
        return viol_obs(
            "c06.exit.status",
            format!("exit status {:?}, expected {}", out.code, want_code),
            out.brief(),
        );
    }
    let mut later_work = false;
    for (ci, (cmd, groups)) in run.results.iter().enumerate() {
        for (gi, g) in groups.iter().enumerate() {
            let after = match first_fail {
                Some((fc, fg)) => ci > fc || (ci == fc && gi > fg),
                None => false,
            };
            let at = first_fail == Some((ci, gi));
            for (t, r) in g {
                let key = (cmd.clone(), t.clone());
                let trs = by_key.get(&key).map(|v| v.as_slice()).unwrap_or(&[]);
                if trs.len() > 1 {
                    return viol("c06.started.twice", format!("{:?} was started {} times", key, trs.len()));
                }
                if after {
                    later_work = true;
                    if r.status != "skipped" {
                        return viol_obs(
                            "c06.later.not-skipped",
                            format!("{:?} comes after the failing group but is reported {:?}", key, r.status),
                            json!({"first_fail": first_fail}),
                        );
                    }
                    if !trs.is_empty() {
                        return viol(
                            "c06.later.started",
                            format!("{:?} comes after the failing group but its executable was started", key),
                        );
                    }
                    continue;
                }
                // truthfulness
                match r.status.as_str() {
                    "success" => {
                        let ok = trs.len() == 1 && trs[0].exit_code == Some(0);
                        if !ok {
                            return viol_obs(
                                "c06.success.untruthful",
                                format!("{:?} reported success without a process that ran to completion with exit 0", key),
                                json!({"traces": trs}),
                            );
                        }
                        if r.code != Some(0) && r.code.is_some() {
                            return viol("c06.success.code", format!("{:?} success with code {:?}", key, r.code));
                        }
                    }
                    "error" => {
                        if let Some(code) = r.code {
                            let ok = trs.len() == 1 && trs[0].exit_code == Some(code);
                            if !ok {
                                return viol_obs(
                                    "c06.error.code",
                                    format!("{:?} reported error code {} but the process did not exit with it", key, code),
                                    json!({"traces": trs}),
                                );
                            }
                        }
                    }
                    "undefined" | "not_executable" | "skipped" => {
                        if !trs.is_empty() {
                            return viol(
                                "c06.nostart.started",
                                format!("{:?} reported {} but a process was started", key, r.status),
                            );
                        }
                    }
                    "cancelled" => {}
                    other => {
                        return viol("c06.status.unknown", format!("{:?} has status {:?}", key, other));
                    }
                }
                if !at {
                    // before the failing group, or no failure at all: the planned outcome must show
                    let f = fault_of(case, cmd, t);
                    let want = match f {
                        None => "success",
                        Some(Fault::Undefined) => "undefined",
                        _ => "?",
                    };
                    if want != "?" && r.status != want {
                        return viol_obs(
                            "c06.status.unexpected",
                            format!("{:?} reported {:?}, expected {:?} (nothing had failed yet)", key, r.status, want),
                            json!({"first_fail": first_fail}),
                        );
                    }
                } else {
                    // the faulty entries themselves
                    match fault_of(case, cmd, t) {
                        Some(Fault::Exit(k)) => {
                            // it may have been skipped if an earlier member of the group failed at scheduling time
                            if r.status == "error" && r.code.is_some() && r.code != Some(*k as i64) {
                                return viol("c06.error.code", format!("{:?} exit {} reported as {:?}", key, k, r.code));
                            }
                            if r.status == "success" {
                                return viol("c06.fault.success", format!("{:?} exits {} but is reported success", key, k));
                            }
                        }
                        Some(Fault::NotExecutable) => {
                            if r.status != "not_executable" && r.status != "skipped" {
                                return viol("c06.fault.notexec", format!("{:?} lacks the x bit but is reported {:?}", key, r.status));
                            }
                        }
                        Some(Fault::Undefined) => {
                            if r.status != "undefined" && r.status != "skipped" {
                                return viol("c06.fault.undefined", format!("{:?} is undefined but is reported {:?}", key, r.status));
                            }
                        }
                        Some(Fault::Signal(_)) | None => {}
                    }
                }
            }
        }
    }
    let ngroups = run.results.first().map(|r| r.1.len()).unwrap_or(0);
    let max_group = run
        .results
        .first()
        .map(|r| r.1.iter().map(|g| g.len()).max().unwrap_or(0))
        .unwrap_or(0);
    let delay_on_shutdown = case
        .delays
        .iter()
        .any(|d| d.1 > 0 && (d.0.contains("shutdown") || d.0.contains("drained")));
    let nontrivial = (any_counting && later_work) || (!any_counting && delay_on_shutdown && max_group >= 2);
    let mut info = CaseInfo::new(nontrivial)
        .class(if any_counting { "with-counting-fault" } else { "no-counting-fault" })
        .class_if(later_work, "work-after-failure")
        .class_if(!case.delays.is_empty(), "internal-delays")
        .class_if(case.fail_on_undefined, "fail-on-undefined")
        .class_if(
            case.commands.iter().any(|c| cfg.targets.iter().all(|t| fault_of(case, c, &t.path) == Some(&Fault::Undefined))),
            "a-command-no-target-defines",
        )
        .class_if(case.symlinks != 0, "symlinked-command-files")
        .class_if(case.lingers != 0, "background-process-keeps-the-pipes-open")
        .class(&format!("groups={}", ngroups.min(4)))
        .inv(env.invocations);
    for f in &case.faults {
        info = info.class(match f.2 {
            Fault::Exit(255) => "fault=exit255",
            Fault::Exit(_) => "fault=exit",
            Fault::NotExecutable => "fault=not_executable",
            Fault::Undefined => "fault=undefined",
            Fault::Signal(_) => "fault=signal",
        });
    }
    Ok(info)
}

/// Deterministic sweep: no fault, one group of n independent targets, one delay
/// at one guarded point.
pub fn sweep_cases() -> Vec<Case> {
    let mut v = vec![];
    for n in [2usize, 3, 5, 8, 12] {
        for p in DELAY_POINTS.iter().take(4) {
            for d in [5u64, 20, 60] {
                let config = gen::layered_config(&[n], &[0]);
                let sleeps = config
                    .targets
                    .iter()
                    .map(|t| ("c0".to_string(), t.path.clone(), 0))
                    .collect();
                v.push(Case {
                    config,
                    commands: vec!["c0".into()],
                    faults: vec![],
                    fail_on_undefined: false,
                    sleeps,
                    delays: vec![(p.to_string(), d)],
                    symlinks: 0,
                    lingers: 0,
                });
            }
        }
    }
    v
}

/// Wide-group mode: one group of 33-70 (thorough: 130) independent targets above/below a small
/// layer; one member exits non-zero at once while its siblings keep running for a while.
pub fn strategy_wide(max_n: usize) -> impl Strategy<Value = Case> {
    (
        prop_oneof![3 => 33usize..=40, 2 => 60usize..=70, 1 => 33usize..=130],
        1usize..=2,
        any::<bool>(),
        vec(any::<u16>(), 8),
        any::<u16>(),
        1i32..=255,
        1usize..=2,
        200u64..500,
    )
        .prop_map(move |(n, k, wide_first, picks, fsel, code, ncmd, sibling_ms)| {
            let n = n.min(max_n);
            let layers = if wide_first { vec![n, k] } else { vec![k, n] };
            let config = gen::layered_config(&layers, &picks);
            let commands: Vec<String> = (0..ncmd).map(|i| format!("c{}", i)).collect();
            let wide_layer = if wide_first { 0 } else { 1 };
            let victim = format!("l{}t{}", wide_layer, pick(fsel, n));
            let faults = vec![("c0".to_string(), victim.clone(), Fault::Exit(code))];
            let mut sleeps = vec![];
            for c in &commands {
                for t in &config.targets {
                    let ms = if t.path == victim { 0 } else if t.path.starts_with(&format!("l{}t", wide_layer)) { sibling_ms } else { 5 };
                    sleeps.push((c.clone(), t.path.clone(), ms));
                }
            }
            Case {
                config,
                commands,
                faults,
                fail_on_undefined: false,
                sleeps,
                delays: vec![],
                symlinks: 0,
                lingers: 0,
            }
        })
}

/// A command file that loses its x bit *during* the run (an earlier executable strips it).
#[derive(Debug, Clone, Serialize, Deserialize)]
pub struct ChmodCase {
    pub config: ConfigSpec,
    pub ncmd: usize,
    /// position of the victim and of the actor among the planned (command, group, target) entries
    pub victim: u16,
    pub actor: u16,
    pub symlink: bool,
}

pub fn chmod_strategy() -> impl Strategy<Value = ChmodCase> {
    (vec(1usize..=3, 2..=3), vec(any::<u16>(), 8), 1usize..=2, any::<u16>(), any::<u16>(), proptest::bool::weighted(0.25)).prop_map(
        |(layers, picks, ncmd, victim, actor, symlink)| ChmodCase {
            config: gen::layered_config(&layers, &picks),
            ncmd,
            victim,
            actor,
            symlink,
        },
    )
}

pub fn check_chmod(case: &ChmodCase, w: usize) -> CheckResult {
    let cfg = &case.config;
    let mut env = Env::new(w);
    env.install_config(cfg);
    let commands: Vec<String> = (0..case.ncmd).map(|i| format!("c{}", i)).collect();
    // the plan, as the model lays it out: per command, the layers of the configuration
    let an = env.mr(&["analyze", "--target-groups"]);
    let Some(av) = an.json() else {
        return inconclusive(format!("analyze failed: {}", an.brief()));
    };
    let groups = crate::props::c01::parse_analyze(&av).map_err(|e| Violation::new("c06.analyze", e))?.groups.unwrap_or_default();
    let mut slots: Vec<(usize, usize, String)> = vec![];
    for ci in 0..case.ncmd {
        for (gi, g) in groups.iter().enumerate() {
            for t in g {
                slots.push((ci, gi, t.clone()));
            }
        }
    }
    // victim: not in the very first group; actor: in a strictly earlier (command, group)
    let later: Vec<usize> = (0..slots.len()).filter(|&i| (slots[i].0, slots[i].1) > (0, 0)).collect();
    if later.is_empty() {
        return Ok(CaseInfo::new(false).class("single-group").inv(env.invocations));
    }
    let v = later[pick(case.victim, later.len())];
    let earlier: Vec<usize> = (0..slots.len()).filter(|&i| (slots[i].0, slots[i].1) < (slots[v].0, slots[v].1)).collect();
    let a = earlier[pick(case.actor, earlier.len())];
    let vfile = bb::simple_cmd_file(cfg, &slots[v].2, &commands[slots[v].0]);
    let mut plan = BTreeMap::new();
    for (i, (ci, _, t)) in slots.iter().enumerate() {
        let file = bb::simple_cmd_file(cfg, t, &commands[*ci]);
        if i == v && case.symlink {
            env.install_command_symlink(&file, "tools/linked/victim.sh", true);
        } else {
            env.install_command(&file, true);
        }
        let mut b = Behavior::default();
        if i == a {
            let real = if case.symlink { "tools/linked/victim.sh".to_string() } else { vfile.clone() };
            b.chmod = vec![(real, 0o644)];
        }
        plan.insert((file, t.clone()), b);
    }
    env.set_plan(&plan);
    let mut args: Vec<&str> = vec!["run", "-c"];
    for c in &commands {
        args.push(c);
    }
    let out = env.mr(&args);
    if out.timed_out {
        return inconclusive("run timed out".into());
    }
    let obs = json!({"victim": slots[v], "actor": slots[a], "run": out.brief()});
    let Some(doc) = out.json() else {
        return viol_obs(
            "c06.fatal.xbit-lost-during-run",
            format!("run ended fatally (exit {:?}) when a command file had lost its x bit by the time of its turn", out.code),
            obs,
        );
    };
    let run = bb::parse_run(&doc).map_err(|e| Violation::new("c06.output", e))?;
    if !run.failed || out.code != Some(1) {
        return viol_obs(
            "c06.xbit-lost.flag",
            format!("failed={} exit={:?} although an executable lacked the x bit at its turn", run.failed, out.code),
            obs,
        );
    }
    let traces = env.traces();
    let started: std::collections::BTreeSet<(String, String)> = traces.iter().map(|t| bb::trace_key(&env, t)).collect();
    let vkey = (commands[slots[v].0].clone(), slots[v].2.clone());
    if started.contains(&vkey) {
        return viol_obs("c06.xbit-lost.started", "the command file without x bit was started".into(), obs);
    }
    for (ci, (cmd, gs)) in run.results.iter().enumerate() {
        for (gi, g) in gs.iter().enumerate() {
            for (t, r) in g {
                let key = (cmd.clone(), t.clone());
                if key == vkey && r.status == "success" {
                    return viol_obs("c06.xbit-lost.success", "the command file without x bit is reported success".into(), obs);
                }
                if (ci, gi) > (slots[v].0, slots[v].1) {
                    if r.status != "skipped" {
                        return viol_obs("c06.later.not-skipped", format!("{:?} comes after the failing group but is reported {:?}", key, r.status), obs);
                    }
                    if started.contains(&key) {
                        return viol_obs("c06.later.started", format!("{:?} comes after the failing group but its executable was started", key), obs);
                    }
                }
            }
        }
    }
    Ok(CaseInfo::new(true)
        .class("xbit-lost-during-run")
        .class_if(case.symlink, "symlinked-command-files")
        .class_if(slots[v].0 > 0, "victim-in-later-command")
        .inv(env.invocations))
}

/// A command planned more than once in one invocation (`-c c0 c0`, or through a sequence and
/// again with -c), every executable exiting 0: none of the statement's failure causes occurs, so
/// the run reports failed=false, exits 0, and every entry is `success` with a process behind it.
#[derive(Debug, Clone, Serialize, Deserialize)]
pub struct RepeatCase {
    pub layers: Vec<usize>,
    pub picks: Vec<u16>,
    /// 0: `-c c0 c0`; 1: sequence [c0, c1] and `-c c0`; 2: `-c c0 c1 c0`
    pub shape: u8,
    /// output per execution differs in size (first long, second short)
    pub first_lines: usize,
}

pub fn repeat_strategy() -> impl Strategy<Value = RepeatCase> {
    (vec(1usize..=3, 1..=2), vec(any::<u16>(), 8), 0u8..3, prop_oneof![Just(1usize), Just(40), Just(400)]).prop_map(|(layers, picks, shape, first_lines)| RepeatCase { layers, picks, shape, first_lines })
}

pub fn check_repeat(case: &RepeatCase, w: usize) -> CheckResult {
    let mut cfg = gen::layered_config(&case.layers, &case.picks);
    cfg.sequences.insert("pipeline".into(), vec!["c0".into(), "c1".into()]);
    let mut env = Env::new(w);
    env.install_config(&cfg);
    let mut beh = BTreeMap::new();
    for c in ["c0", "c1"] {
        for t in &cfg.targets {
            beh.insert(
                (c.to_string(), t.path.clone()),
                Behavior {
                    // the first execution writes much, a later one of the same pair little
                    out: vec![bb::Step::W(format!("{} {} line\n", c, t.path).repeat(case.first_lines).into_bytes())],
                    out_later: vec![bb::Step::W(b"up to date\n".to_vec())],
                    ..Default::default()
                },
            );
        }
    }
    bb::install_simple(&env, &cfg, &beh);
    let (args, want): (Vec<&str>, Vec<&str>) = match case.shape {
        0 => (vec!["run", "-c", "c0", "c0"], vec!["c0", "c0"]),
        1 => (vec!["run", "-s", "pipeline", "-c", "c0"], vec!["c0", "c1", "c0"]),
        _ => (vec!["run", "-c", "c0", "c1", "c0"], vec!["c0", "c1", "c0"]),
    };
    let out = env.mr(&args);
    if out.timed_out {
        return inconclusive("run timed out".into());
    }
    let Some(doc) = out.json() else {
        if (out.stderr_str().contains("Lock acquisition failed") || out.stderr_str().contains("Text file busy")) {
            return inconclusive(format!("run produced no JSON: {}", out.brief()));
        }
        return viol_obs("c06.fatal", "a run that plans one command twice ended fatally although every executable exits 0".into(), out.brief());
    };
    let run = bb::parse_run(&doc).map_err(|e| Violation::new("c06.output", e))?;
    if run.failed || out.code != Some(0) {
        return viol_obs(
            "c06.failed.flag",
            format!("failed={} and exit status {:?} although every executable exits 0 (a command is planned twice: {:?})", run.failed, out.code, want),
            json!({"results": doc.get("results")}),
        );
    }
    let got: Vec<&str> = run.results.iter().map(|r| r.0.as_str()).collect();
    if got != want {
        return inconclusive(format!("planned commands {:?}, expected {:?} (judged by C04)", got, want));
    }
    let traces = env.traces();
    let mut n_by_key: BTreeMap<(String, String), usize> = BTreeMap::new();
    for t in &traces {
        if t.exit_code == Some(0) {
            *n_by_key.entry(bb::trace_key(&env, t)).or_default() += 1;
        }
    }
    for (cmd, groups) in &run.results {
        for g in groups {
            for (t, r) in g {
                let occurrences = want.iter().filter(|c| **c == cmd.as_str()).count();
                if r.status != "success" {
                    return viol_obs("c06.status.unexpected", format!("({}, {}) is reported {:?} although its executable exits 0", cmd, t, r.status), json!({"results": doc.get("results")}));
                }
                if n_by_key.get(&(cmd.clone(), t.clone())).copied().unwrap_or(0) != occurrences {
                    return viol("c06.success.untruthful", format!("({}, {}) is reported success at {} places but {} processes ran to completion with exit 0", cmd, t, occurrences, n_by_key.get(&(cmd.clone(), t.clone())).copied().unwrap_or(0)));
                }
            }
        }
    }
    Ok(CaseInfo::new(true).class("a-command-planned-twice").class(&format!("shape={}", case.shape)).inv(env.invocations))
}

pub fn run(ctx: &mut Ctx) {
    ctx.rule = "layered plan (1-4 groups x 1-4 targets x 1-3 commands) x 0-3 faults anywhere (exit 1..255, missing x bit, undefined) x --fail-on-undefined \
x child sleeps x 0-3 internal delays (0-60 ms) at guarded points; plus a deterministic sweep (no fault, group size 2-12, one delay at one point); plus a wide-group mode (one group of 33-70 members, thorough 130, one of which fails at once while the others keep running); plus faults by signal (judged for truthfulness only) and command files whose x bit is removed by an earlier executable of the same run. \
oracle: failed == (a counting fault is planned) == (exit status 1, else exactly 0; fatal exit is a violation), everything after the first failing group is skipped and \
never started, success/error-code/undefined/not_executable/skipped entries agree with the helper traces. non-trivial = a counting fault with work planned after it, \
or no fault with a delay on a shutdown/drain point and a group of >= 2; distinct by SHA-256"
        .to_string();
    ctx.assumptions = vec![
        "siblings of a failed task in the same group are judged for truthfulness only (monorail cancels them)".into(),
        "plan order is read from the result document".into(),
    ];
    ctx.drive_all("sweep", sweep_cases(), "no-fault delay sweep: group size x guarded point x delay", check);
    let n = ctx.n(300, 6000);
    ctx.drive("run", strategy, n, check);
    let n2 = ctx.n(40, 800);
    ctx.drive("xbit-lost-during-run", chmod_strategy, n2, check_chmod);
    let n4 = ctx.n(24, 400);
    ctx.drive("repeated-command", repeat_strategy, n4, check_repeat);
    let n3 = ctx.n(16, 300);
    let max_n = if ctx.thorough() { 130 } else { 70 };
    ctx.drive("wide-group-failure", move || strategy_wide(max_n), n3, check);
}

pub fn replay(ctx: &Ctx, label: &str, case: Value) -> Result<(), String> {
    if label.contains("xbit") {
        let c: ChmodCase = serde_json::from_value(case).map_err(|e| e.to_string())?;
        let r = check_chmod(&c, 0);
        ctx.replay_one(label, &c, r);
        return Ok(());
    }
    if label.contains("repeated-command") {
        let c: RepeatCase = serde_json::from_value(case).map_err(|e| e.to_string())?;
        let r = check_repeat(&c, 0);
        ctx.replay_one(label, &c, r);
        return Ok(());
    }
    let c: Case = serde_json::from_value(case).map_err(|e| e.to_string())?;
    let r = check(&c, 0);
    ctx.replay_one(label, &c, r);
    Ok(())
}
