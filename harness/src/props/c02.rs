//! C02 - the reported change set is exactly the difference from the checkpoint.

use crate::hist::{self, Hist, Op};
use crate::props::c01;
use crate::runner::*;
use proptest::collection::vec;
use proptest::prelude::*;
use serde::{Deserialize, Serialize};
use serde_json::{json, Value};
use std::collections::{BTreeMap, BTreeSet};

#[derive(Debug, Clone, Serialize, Deserialize, PartialEq)]
pub enum Step {
    Repo(Op),
    /// checkpoint update: (--id older commit?, --pending)
    Update(Option<u16>, bool),
    /// analyze --changes: (--begin?, --end?)
    Analyze(Option<u16>, Option<u16>),
}

#[derive(Debug, Clone, Serialize, Deserialize)]
pub struct Case {
    pub ignore_out: bool,
    pub steps: Vec<Step>,
}

pub fn repo_op() -> impl Strategy<Value = Op> {
    prop_oneof![
        3 => (any::<u16>(), any::<u16>()).prop_map(|(a, b)| Op::Create(a, b)),
        3 => any::<u16>().prop_map(Op::Edit),
        2 => any::<u16>().prop_map(Op::Delete),
        3 => (any::<u16>(), any::<u16>(), any::<u16>(), any::<bool>()).prop_map(|(a, b, c, d)| Op::Move(a, b, c, d)),
        1 => any::<u16>().prop_map(Op::StagePath),
        1 => Just(Op::StageAll),
        1 => Just(Op::CommitStaged),
        2 => Just(Op::CommitAll),
        1 => any::<u16>().prop_map(Op::CreateIgnored),
        1 => (any::<u16>(), any::<u16>(), any::<u16>()).prop_map(|(a, b, c)| Op::BigWrite(a, b, c)),
        2 => any::<u16>().prop_map(Op::TailEdit),
        2 => any::<u16>().prop_map(Op::Rewrite),
        2 => any::<u16>().prop_map(Op::EditOldMtime),
        2 => any::<u16>().prop_map(Op::MakeEmpty),
        2 => (any::<u16>(), any::<u16>(), any::<u16>()).prop_map(|(a, b, c)| Op::CopyContent(a, b, c)),
        1 => any::<u16>().prop_map(Op::BulkSmall),
        1 => Just(Op::PackRefs),
        2 => any::<u16>().prop_map(Op::Restore),
        2 => any::<u16>().prop_map(Op::RmCached),
        2 => any::<u16>().prop_map(Op::CaseVariant),
        1 => any::<u16>().prop_map(Op::ResetSoft),
        2 => (any::<u16>(), any::<u16>()).prop_map(|(a, b)| Op::BlankEdgeName(a, b)),
        3 => any::<u16>().prop_map(Op::DirNameSibling),
        2 => any::<u16>().prop_map(Op::OutDirSibling),
        3 => (any::<u16>(), any::<u16>()).prop_map(|(a, b)| Op::RevertTo(a, b)),
    ]
}

pub fn strategy() -> impl Strategy<Value = Case> {
    let step = prop_oneof![
        10 => repo_op().prop_map(Step::Repo),
        2 => (proptest::option::weighted(0.4, any::<u16>()), any::<bool>()).prop_map(|(i, p)| Step::Update(i, p)),
        6 => (proptest::option::weighted(0.4, any::<u16>()), proptest::option::weighted(0.5, any::<u16>()))
            .prop_map(|(b, e)| Step::Analyze(b, e)),
    ];
    (any::<bool>(), vec(step, 0..25)).prop_map(|(ignore_out, mut steps)| {
        // always end with an observation of the default form
        steps.push(Step::Analyze(None, None));
        Case { ignore_out, steps }
    })
}

pub fn check(case: &Case, w: usize) -> CheckResult {
    let cfg = hist::config();
    let mut h = match Hist::new(w, &cfg, case.ignore_out) {
        Ok(h) => h,
        Err(e) => return inconclusive(e),
    };
    // initial checkpoint at the first commit
    let o = h.env.mr(&["checkpoint", "update"]);
    if !o.ok() {
        return inconclusive(format!("initial checkpoint update failed: {}", o.brief()));
    }
    let mut cp_commit: usize = h.head();
    let mut cp_pending: BTreeMap<String, String> = BTreeMap::new();
    let mut nontrivial = false;
    let mut classes: BTreeSet<&'static str> = BTreeSet::new();
    let mut commit_after_cp = false;
    for (si, st) in case.steps.iter().enumerate() {
        match st {
            Step::Repo(op) => {
                let before = h.commits.len();
                if let Err(e) = h.apply(op) {
                    return inconclusive(format!("step {} ({:?}) could not be applied: {}", si, op, e));
                }
                if h.commits.len() > before {
                    commit_after_cp = true;
                }
            }
            Step::Update(id, pending) => {
                let mut args = vec!["checkpoint".to_string(), "update".to_string()];
                let target = match id {
                    Some(k) => {
                        let c = pick(*k, h.commits.len());
                        args.push("-i".into());
                        args.push(h.commits[c].0.clone());
                        c
                    }
                    None => h.head(),
                };
                if *pending {
                    args.push("-p".into());
                }
                let argv: Vec<&str> = args.iter().map(|s| s.as_str()).collect();
                let o = h.env.mr(&argv);
                if !o.ok() {
                    return inconclusive(format!("checkpoint update failed: {}", o.brief()));
                }
                // the pending map is read back through `checkpoint show`
                let s = h.env.mr(&["checkpoint", "show"]);
                let Some((cid, pend)) = s.json().as_ref().and_then(hist::parse_checkpoint) else {
                    return inconclusive(format!("checkpoint show failed: {}", s.brief()));
                };
                if cid != h.commits[target].0 {
                    return inconclusive(format!("checkpoint id {} is not the requested commit", cid));
                }
                cp_commit = target;
                cp_pending = pend;
                commit_after_cp = target != h.head();
                if id.is_some() {
                    classes.insert("older-checkpoint");
                }
                if *pending {
                    classes.insert("pending-update");
                }
            }
            Step::Analyze(b, e) => {
                let mut args = vec!["analyze".to_string(), "--changes".to_string()];
                let (base, end) = match (b, e) {
                    (Some(b), e) => {
                        let bc = pick(*b, h.commits.len());
                        args.push("--begin".into());
                        args.push(h.commits[bc].0.clone());
                        let ec = e.map(|e| pick(e, h.commits.len()));
                        if let Some(ec) = ec {
                            args.push("--end".into());
                            args.push(h.commits[ec].0.clone());
                        }
                        (bc, ec)
                    }
                    (None, Some(e)) => {
                        // --end alone: the interval starts at the checkpoint commit
                        let ec = pick(*e, h.commits.len());
                        args.push("--end".into());
                        args.push(h.commits[ec].0.clone());
                        (cp_commit, Some(ec))
                    }
                    (None, None) => (cp_commit, None),
                };
                let argv: Vec<&str> = args.iter().map(|s| s.as_str()).collect();
                let o = h.env.mr(&argv);
                let Some(v) = o.json() else {
                    return viol_obs("c02.analyze.failed", format!("analyze --changes failed at step {}", si), o.brief());
                };
                let p = c01::parse_analyze(&v).map_err(|e| Violation::new("c02.output", e))?;
                if !p.has_changes {
                    return viol("c02.no.changes.field", "a checkpoint exists but `changes` is absent".into());
                }
                let got: Vec<String> = p.changes.iter().map(|c| c.0.clone()).collect();
                for w2 in got.windows(2) {
                    if w2[0] > w2[1] {
                        return viol("c02.unsorted", format!("changes not sorted: {:?} before {:?}", w2[0], w2[1]));
                    }
                }
                let got_set: BTreeSet<String> = got.iter().cloned().collect();
                h.sync_out();
                let want = h.expected_changes(base, end, &cp_pending);
                if got_set != want {
                    let missing: Vec<&String> = want.difference(&got_set).collect();
                    let extra: Vec<&String> = got_set.difference(&want).collect();
                    let quoted = extra.iter().any(|x| x.starts_with('"') || x.contains('\\'));
                    let sig = if quoted {
                        "c02.quoted.path"
                    } else if h.moved && !missing.is_empty() && extra.is_empty() {
                        "c02.missing.after.move"
                    } else if !missing.is_empty() {
                        "c02.missing"
                    } else {
                        "c02.extra"
                    };
                    return viol_obs(
                        sig,
                        format!(
                            "step {}: reported changes differ from the model: missing {:?}, unexpected {:?} (base commit #{}, end {:?})",
                            si, missing, extra, base, end
                        ),
                        json!({"history": h.log, "pending": cp_pending, "args": args}),
                    );
                }
                let filtered = cp_pending.keys().any(|k| !want.contains(k));
                let interesting = h.moved || h.deleted || commit_after_cp || filtered || h.odd_name || b.is_some() || e.is_some();
                if !want.is_empty() && interesting {
                    nontrivial = true;
                }
                if b.is_none() && e.is_some() {
                    classes.insert("end-only");
                }
                if b.is_some() {
                    classes.insert(if e.is_some() { "begin+end" } else { "begin-only" });
                }
                if filtered {
                    classes.insert("pending-filtered");
                }
            }
        }
    }
    let mut info = CaseInfo::new(nontrivial)
        .class_if(h.moved, "move")
        .class_if(h.deleted, "delete")
        .class_if(h.odd_name, "odd-name")
        .class_if(h.big, "big-file")
        .class_if(h.tail_edit, "tail-edit")
        .class_if(h.old_mtime, "edit-with-old-mtime")
        .class_if(h.empty_file, "empty-file")
        .class_if(h.copied, "content-copied-to-another-path")
        .class_if(h.work.len() > 100, "changes>100")
        .class_if(h.commits.len() > 2, "commits>=2")
        .class_if(!case.ignore_out, "out-dir-not-ignored")
        .inv(h.env.invocations);
    for c in classes {
        info = info.class(c);
    }
    Ok(info)
}

pub fn run(ctx: &mut Ctx) {
    ctx.rule = "stateful: up to 25 steps over a real git repository and a model of commit trees / index / working tree: create, edit (fresh content), delete, move (mv or git mv), \
stage path/all, commit staged/all, create git-ignored files (names with spaces and non-ASCII), interleaved with `checkpoint update [-i older] [-p]` and observations \
`analyze --changes [--begin b [--end e]]`. oracle per observation: set of reported paths == model (content difference to the base commit or between the two commits, + untracked non-ignored, \
- paths whose SHA-256 equals the pending checksum read back from `checkpoint show`), verbatim names, sorted. non-trivial = an observation with a non-empty expected set in a history \
with a move, delete, commit after the checkpoint, pending-filtered path, odd name or explicit begin/end; distinct by SHA-256"
        .to_string();
    ctx.assumptions = vec![
        "mode changes, rm --cached, symlinks, nested repositories and names with newlines are not generated".into(),
        "--begin without --end is judged as working tree vs. the begin commit".into(),
        "duplicates in the reported list are not judged".into(),
    ];
    let n = ctx.n(400, 8000);
    ctx.drive("history", strategy, n, check);
}

pub fn replay(ctx: &Ctx, label: &str, case: Value) -> Result<(), String> {
    let c: Case = serde_json::from_value(case).map_err(|e| e.to_string())?;
    let r = check(&c, 0);
    ctx.replay_one(label, &c, r);
    Ok(())
}
