//! C05 - a run covers exactly the selected targets, once each.

use crate::bb::{self, Behavior, Env, Trace};
use crate::gen::{self, CycleMode};
use crate::model::{self, ConfigSpec};
use crate::props::c01;
use crate::runner::*;
use proptest::collection::vec;
use proptest::prelude::*;
use serde::{Deserialize, Serialize};
use serde_json::{json, Value};
use std::collections::{BTreeMap, BTreeSet};

#[derive(Debug, Clone, Serialize, Deserialize, PartialEq)]
pub enum State {
    NoCheckpoint,
    Clean,
    Edits(Vec<String>),
    /// a checkpoint whose id is empty (`checkpoint update -i ''`), then new files
    EmptyId(Vec<String>),
    /// a checkpoint, then new files committed after it
    Committed(Vec<String>),
    /// a checkpoint, new files recorded as pending (`checkpoint update -p`), then more new files
    Pending(Vec<String>, Vec<String>),
}
#[derive(Debug, Clone, Serialize, Deserialize, PartialEq)]
pub enum Mode {
    Auto,
    Targets(Vec<String>),
    TargetsDeps(Vec<String>),
}

#[derive(Debug, Clone, Serialize, Deserialize)]
pub struct Case {
    pub config: ConfigSpec,
    pub state: State,
    pub mode: Mode,
    pub commands: Vec<String>,
    /// (command, target) pairs that do NOT define the command
    pub undefined: Vec<(String, String)>,
    /// one executable exits with this code (command index, target index, code): the rest of the
    /// run is skipped, but the result document still lists every planned pair exactly once
    #[serde(default)]
    pub failing: Option<(u16, u16, i32)>,
    /// a third of the defined commands are mapped to an executable kept elsewhere
    /// (`commands.definitions.<cmd>.path`), while a file with the command's stem that is *not*
    /// the target's command lies in the command directory
    #[serde(default)]
    pub explicit_defs: bool,
    /// how the commands are asked for: 0 all with -c; 1 a prefix through a sequence (-s) and the
    /// rest with -c; 2 like 1, and the first command once more with -c (it is then planned twice)
    #[serde(default)]
    pub via_sequence: u8,
    /// `--deps` is given although no target is named (mode Auto): still a run without targets
    #[serde(default)]
    pub deps_alone: bool,
}

pub fn strategy() -> impl Strategy<Value = Case> {
    (
        gen::raw_config(8, 3, 2),
        0u8..9,
        vec((0u8..9, any::<u16>(), any::<u16>()), 1..=5),
        0u8..4,
        vec(any::<u16>(), 1..=3),
        1usize..=3,
        vec((any::<u16>(), any::<u16>()), 0..=4),
        proptest::option::weighted(0.25, (any::<u16>(), any::<u16>(), 1i32..=9)),
    )
        .prop_map(|(raw, state_k, rc, mode_k, picks, ncmd, undef, failing)| {
            // helper traces are keyed by working directory: keep target paths free of trailing slashes here
            let mut raw = raw;
            raw.trailing_slash = 0;
            let mut config = gen::build_config(&raw, CycleMode::Acyclic);
            let n = config.targets.len();
            // some targets keep their commands in a directory of their own choosing
            for (i, t) in config.targets.iter_mut().enumerate() {
                if raw.perm.get(i).copied().unwrap_or(0) % 3 == 0 {
                    t.commands_path = Some(format!("tools/cmds-{}", i));
                }
            }
            // a quarter of the configurations keep monorail's output in a directory of their own
            // whose name is a string prefix (not a component prefix) of a target's first component
            if raw.perm.first().copied().unwrap_or(0) % 4 == 0 {
                let firsts: BTreeSet<String> = config
                    .targets
                    .iter()
                    .flat_map(|t| t.uses.iter().chain(t.ignores.iter()).chain(std::iter::once(&t.path)))
                    .filter_map(|p| p.split('/').next().map(String::from))
                    .collect();
                let cand = firsts
                    .iter()
                    .filter(|f| f.chars().count() >= 2)
                    .map(|f| {
                        let mut c: Vec<char> = f.chars().collect();
                        c.pop();
                        c.into_iter().collect::<String>()
                    })
                    .find(|c| !firsts.contains(c) && c.is_ascii());
                if let Some(c) = cand {
                    config.out_dir = Some(c);
                }
            }
            let commands: Vec<String> = (0..ncmd).map(|i| format!("c{}", i)).collect();
            let state = match state_k {
                0 => State::NoCheckpoint,
                1 => State::Clean,
                k => {
                    let mut v: Vec<String> = rc.iter().map(|&(k, a, b)| gen::change_path(&config, k, a, b)).collect();
                    v.sort();
                    v.dedup();
                    match k {
                        5 | 6 => State::EmptyId(v),
                        7 => State::Committed(v),
                        8 => {
                            let later = v.split_off(v.len() / 2);
                            State::Pending(v, later)
                        }
                        _ => State::Edits(v),
                    }
                }
            };
            let mut chosen: Vec<String> = picks.iter().map(|&p| config.targets[pick(p, n)].path.clone()).collect();
            chosen.sort();
            chosen.dedup();
            let mode = match mode_k {
                0 | 1 => Mode::Auto,
                2 => Mode::Targets(chosen),
                _ => Mode::TargetsDeps(chosen),
            };
            let mut undefined = vec![];
            for (a, b) in undef {
                let e = (commands[pick(a, ncmd)].clone(), config.targets[pick(b, n)].path.clone());
                if !undefined.contains(&e) {
                    undefined.push(e);
                }
            }
            let explicit_defs = raw.perm.get(1).copied().unwrap_or(0) % 2 == 0;
            let via_sequence = match raw.perm.get(2).copied().unwrap_or(0) % 4 {
                0 | 1 => 0,
                2 => 1,
                _ => {
                    if failing.is_none() {
                        2
                    } else {
                        1
                    }
                }
            };
            let deps_alone = mode == Mode::Auto && raw.perm.get(3).copied().unwrap_or(0) % 3 == 0;
            Case {
                config,
                state,
                mode,
                commands,
                undefined,
                failing,
                explicit_defs,
                via_sequence,
                deps_alone,
            }
        })
}

/// Size-boundary mode: a flat or two-layer configuration with wide groups (sizes around 16 / 32 / 64).
pub fn strategy_wide(max_width: usize) -> impl Strategy<Value = Case> {
    (
        prop_oneof![3 => 14usize..=20, 2 => 30usize..=36, 1 => 62usize..=68, 1 => 10usize..=130],
        0usize..=2,
        vec(any::<u16>(), 32),
        1usize..=2,
        0u8..4,
        vec((any::<u16>(), any::<u16>()), 0..=4),
    )
        .prop_map(move |(width, tops, picks, ncmd, mode_k, undef)| {
            let width = width.min(max_width);
            let mut targets = vec![];
            for i in 0..width {
                targets.push(crate::model::TargetSpec::new(&format!("w{:03}", i)));
            }
            for j in 0..tops {
                let mut t = crate::model::TargetSpec::new(&format!("top{}", j));
                for i in 0..width {
                    if picks[(i + 5 * j) % picks.len()] % 3 != 0 {
                        t.uses.push(format!("w{:03}", i));
                    }
                }
                targets.push(t);
            }
            let rot = picks[0] as usize % targets.len();
            targets.rotate_left(rot);
            let config = ConfigSpec {
                targets,
                ..Default::default()
            };
            let n = config.targets.len();
            let commands: Vec<String> = (0..ncmd).map(|i| format!("c{}", i)).collect();
            let all = config.target_paths();
            let (state, mode) = match mode_k {
                0 => (State::NoCheckpoint, Mode::Auto),
                1 => (State::Edits(all.iter().map(|t| format!("{}/new.txt", t)).collect()), Mode::Auto),
                2 => (State::NoCheckpoint, Mode::TargetsDeps(if tops > 0 { vec!["top0".to_string()] } else { all.clone() })),
                _ => (State::Clean, Mode::TargetsDeps(all.clone())),
            };
            let mut undefined = vec![];
            for (a, b) in undef {
                let e = (commands[pick(a, ncmd)].clone(), config.targets[pick(b, n)].path.clone());
                if !undefined.contains(&e) {
                    undefined.push(e);
                }
            }
            Case {
                config,
                state,
                mode,
                commands,
                undefined,
                // in a third of the wide cases one command file (of a target somewhere in the wide
                // layer, or above it) lacks the x bit: its group still lists every member
                failing: if picks[2] % 3 == 0 { Some((0, picks[3], 8)) } else { None },
                explicit_defs: false,
                via_sequence: 0,
                deps_alone: mode_k == 1 && width % 2 == 0,
            }
        })
}

pub fn check(case: &Case, w: usize) -> CheckResult {
    let mut cfg_owned = case.config.clone();
    let cfg = &case.config;
    let mut env = Env::new(w);
    let mut beh = BTreeMap::new();
    for c in &case.commands {
        for t in &cfg.targets {
            if !case.undefined.contains(&(c.clone(), t.path.clone())) {
                let exit = match case.failing {
                    Some((fc, ft, code)) if case.commands[pick(fc, case.commands.len())] == *c && cfg.targets[pick(ft, cfg.targets.len())].path == t.path => code,
                    _ => 0,
                };
                // with a failing executable: it fails at once, while the others are still running
                let sleep_ms = match case.failing {
                    Some(_) if exit != 0 => 0,
                    Some(_) => 200,
                    None => 3,
                };
                // a third of the failing executables do not exit by themselves: they are killed by a signal
                let kill_self = if exit != 0 && exit % 3 == 0 { Some(9) } else { None };
                beh.insert((c.clone(), t.path.clone()), Behavior { sleep_ms, exit, kill_self, ..Default::default() });
            }
        }
    }
    // explicit definitions: the executable lives elsewhere, a decoy with the same stem lies in
    // the command directory
    let mut explicit: BTreeMap<(String, String), String> = BTreeMap::new();
    if case.explicit_defs {
        for (i, (c, t)) in beh.keys().enumerate() {
            if (i + cfg.targets.len()) % 3 == 1 {
                let p = format!("tools/defs/d{}/{}.sh", i, c);
                if let Some(ts) = cfg_owned.targets.iter_mut().find(|x| x.path == *t) {
                    ts.command_defs.insert(c.clone(), p.clone());
                    explicit.insert((c.clone(), t.clone()), p);
                }
            }
        }
    }
    // the commands as planned: sequences first, then -c, each in the order given
    let mut planned: Vec<String> = case.commands.clone();
    let mut run_args: Vec<String> = vec!["run".into()];
    if case.via_sequence > 0 {
        let k = 1 + case.commands.len() / 2;
        let k = k.min(case.commands.len());
        cfg_owned.sequences.insert("seq-first".into(), case.commands[..k].to_vec());
        run_args.push("-s".into());
        run_args.push("seq-first".into());
        let mut rest: Vec<String> = case.commands[k..].to_vec();
        if case.via_sequence == 2 {
            rest.push(case.commands[0].clone());
            planned.push(case.commands[0].clone());
        }
        if !rest.is_empty() {
            run_args.push("-c".into());
            run_args.extend(rest);
        }
    } else {
        run_args.push("-c".into());
        run_args.extend(case.commands.iter().cloned());
    }
    env.install_config(&cfg_owned);
    let decoy_root = env.path("decoy-started");
    let decoy_marker = move |i: usize| std::path::PathBuf::from(format!("{}-{}", decoy_root.display(), i));
    {
        let mut plan = BTreeMap::new();
        for (i, ((cmd, target), b)) in beh.iter().enumerate() {
            let f = match explicit.get(&(cmd.clone(), target.clone())) {
                Some(p) => {
                    let decoy = env.path(&bb::simple_cmd_file(cfg, target, cmd));
                    if let Some(d) = decoy.parent() {
                        let _ = std::fs::create_dir_all(d);
                    }
                    let _ = std::fs::write(&decoy, format!("#!/bin/sh\ntouch '{}'\n", decoy_marker(i).display()));
                    use std::os::unix::fs::PermissionsExt;
                    let _ = std::fs::set_permissions(&decoy, std::fs::Permissions::from_mode(0o755));
                    p.clone()
                }
                None => bb::simple_cmd_file(cfg, target, cmd),
            };
            env.install_command(&f, true);
            plan.insert((f, target.clone()), b.clone());
        }
        env.set_plan(&plan);
    }
    // every third defined command file is a symbolic link to a script kept elsewhere
    let mut linked = 0;
    for (i, (c, t)) in beh.keys().enumerate() {
        if (i + cfg.targets.len()) % 3 == 0 {
            let f = bb::simple_cmd_file(cfg, t, c);
            env.install_command_symlink(&f, &format!("tools/linked/{}-{}.sh", c, i), true);
            linked += 1;
        }
    }
    // a quarter of the failing executables fail because their command file lacks the x bit
    // (status `not_executable`): found when the task is scheduled, nothing is started for it
    let mut noexec_file: Option<std::path::PathBuf> = None;
    if let Some((fc, ft, code)) = case.failing {
        if code % 4 == 0 {
            let c = case.commands[pick(fc, case.commands.len())].clone();
            let t = cfg.targets[pick(ft, cfg.targets.len())].path.clone();
            if beh.contains_key(&(c.clone(), t.clone())) {
                let f = explicit.get(&(c.clone(), t.clone())).cloned().unwrap_or_else(|| bb::simple_cmd_file(cfg, &t, &c));
                use std::os::unix::fs::PermissionsExt;
                let _ = std::fs::set_permissions(env.path(&f), std::fs::Permissions::from_mode(0o644));
                noexec_file = Some(env.path(&f));
            }
        }
    }
    let mut created: Vec<String> = vec![];
    match &case.state {
        State::NoCheckpoint => {}
        State::Clean => {
            if let Err(e) = bb::commit_all_and_checkpoint(&mut env) {
                return inconclusive(e);
            }
        }
        State::Edits(paths) => {
            if let Err(e) = bb::commit_all_and_checkpoint(&mut env) {
                return inconclusive(e);
            }
            created = bb::create_files(&env, paths, true);
        }
        State::EmptyId(paths) => {
            if let Err(e) = bb::commit_all_and_checkpoint(&mut env) {
                return inconclusive(e);
            }
            let o = env.mr(&["checkpoint", "update", "-i", ""]);
            if !o.ok() {
                return inconclusive(format!("checkpoint update -i '' failed: {}", o.brief()));
            }
            created = bb::create_files(&env, paths, true);
        }
        State::Committed(paths) => {
            if let Err(e) = bb::commit_all_and_checkpoint(&mut env) {
                return inconclusive(e);
            }
            created = bb::create_files(&env, paths, true);
            if let Err(e) = env.git_ok(&["add", "-A"]).and_then(|_| env.git_ok(&["commit", "-q", "--allow-empty", "-m", "more"])) {
                return inconclusive(e);
            }
        }
        State::Pending(first, later) => {
            if let Err(e) = bb::commit_all_and_checkpoint(&mut env) {
                return inconclusive(e);
            }
            created = bb::create_files(&env, first, true);
            let o = env.mr(&["checkpoint", "update", "-p"]);
            if !o.ok() {
                return inconclusive(format!("checkpoint update -p failed: {}", o.brief()));
            }
            created.extend(bb::create_files(&env, later, true));
        }
    }
    // reference: analyze immediately before the run
    let an = env.mr(&["analyze", "--target-groups"]);
    let Some(av) = an.json() else {
        if an.error_type() == "graph" {
            return Ok(CaseInfo::new(false).class("rejected(C03)").inv(env.invocations));
        }
        return inconclusive(format!("analyze failed: {}", an.brief()));
    };
    let ap = c01::parse_analyze(&av).map_err(|e| Violation::new("c05.analyze.output", e))?;
    let analyze_groups = ap.groups.clone().unwrap_or_default();

    let mut args: Vec<String> = run_args.clone();
    let all_paths: BTreeSet<String> = cfg.target_paths().into_iter().collect();
    let idx = gen::index_of(cfg);
    let adj = model::dep_adj(cfg);
    let (selected, mode_name): (BTreeSet<String>, &str) = match &case.mode {
        Mode::Auto => {
            if case.deps_alone {
                args.push("--deps".into());
            }
            (ap.targets.iter().cloned().collect(), if case.deps_alone { "auto+deps-flag" } else { "auto" })
        }
        Mode::Targets(s) => {
            args.push("-t".into());
            args.extend(s.iter().cloned());
            (s.iter().cloned().collect(), "targets")
        }
        Mode::TargetsDeps(s) => {
            args.push("-t".into());
            args.extend(s.iter().cloned());
            args.push("--deps".into());
            let roots: Vec<usize> = s.iter().map(|t| idx[t]).collect();
            let cl = model::closure(&adj, &roots);
            (cl.into_iter().map(|i| cfg.targets[i].path.clone()).collect(), "targets+deps")
        }
    };
    if case.mode == Mode::Auto && case.state == State::NoCheckpoint {
        if selected != all_paths || ap.checkpointed {
            return viol_obs(
                "c05.nocheckpoint.analyze",
                "without a checkpoint analyze must report every configured target and checkpointed=false".into(),
                json!({"targets": ap.targets}),
            );
        }
    }
    let argv: Vec<&str> = args.iter().map(|s| s.as_str()).collect();
    let out = env.mr(&argv);
    if out.timed_out {
        return inconclusive("run timed out".into());
    }
    let Some(doc) = out.json() else {
        if (out.stderr_str().contains("Lock acquisition failed") || out.stderr_str().contains("Text file busy")) {
            return inconclusive(format!("run produced no JSON: {}", out.brief()));
        }
        if out.error_type() == "graph" {
            return Ok(CaseInfo::new(false).class("rejected(C03)").inv(env.invocations));
        }
        // `analyze` has just accepted this configuration and repository state: a run that ends
        // without a result has executed nothing for the targets it had to cover
        return viol_obs("c05.run.rejected", "`run` ended without a result although `analyze` accepts the same configuration and state".into(), out.brief());
    };
    let run = bb::parse_run(&doc).map_err(|e| Violation::new("c05.output", e))?;
    // with a failing executable only the statements about the result document and "at most
    // once" are judged (what must not start after a failure is C06's subject)
    let failed_mode = case.failing.is_some() && run.failed;
    let _ = &noexec_file;
    if !failed_mode && (run.failed || out.code != Some(0)) {
        return inconclusive(format!("run failed although nothing fails: {}", out.brief()));
    }
    let got_cmds: Vec<&String> = run.results.iter().map(|r| &r.0).collect();
    if got_cmds != planned.iter().collect::<Vec<_>>() {
        return viol("c05.commands", format!("result commands {:?} != planned {:?} (arguments {:?})", got_cmds, planned, run_args));
    }
    // a same-stem file in the command directory is not the command of a target that maps the
    // command to another executable
    for (i, (c, t)) in beh.keys().enumerate() {
        if decoy_marker(i).exists() {
            return viol(
                "c05.decoy.started",
                format!(
                    "({}, {}) maps the command to {:?}, but the same-stem file in its command directory was started",
                    c,
                    t,
                    explicit.get(&(c.clone(), t.clone()))
                ),
            );
        }
    }
    let traces = env.traces();
    let mut by_key: BTreeMap<(String, String), Vec<&Trace>> = BTreeMap::new();
    for t in &traces {
        by_key.entry(bb::trace_key(&env, t)).or_default().push(t);
    }
    for (cmd, groups) in &run.results {
        // exactly once in the result
        let mut seen = BTreeSet::new();
        for g in groups {
            for t in g.keys() {
                if !seen.insert(t.clone()) {
                    return viol("c05.result.duplicate", format!("({}, {}) appears twice in the result", cmd, t));
                }
            }
        }
        if seen != selected {
            let missing: Vec<_> = selected.difference(&seen).collect();
            let extra: Vec<_> = seen.difference(&selected).collect();
            return viol_obs(
                "c05.selection",
                format!("command {} ({} mode): result targets differ from the selection: missing {:?}, extra {:?}", cmd, mode_name, missing, extra),
                json!({"selected": selected, "result": seen, "created": created}),
            );
        }
        match &case.mode {
            Mode::Auto => {
                let rg: Vec<BTreeSet<String>> = groups.iter().map(|g| g.keys().cloned().collect()).collect();
                let ag: Vec<BTreeSet<String>> = analyze_groups.iter().map(|g| g.iter().cloned().collect()).collect();
                if rg != ag {
                    return viol_obs(
                        "c05.groups.vs.analyze",
                        format!("command {}: run groups differ from `analyze --target-groups`", cmd),
                        json!({"run": rg, "analyze": ag}),
                    );
                }
            }
            Mode::Targets(_) => {
                if groups.iter().any(|g| g.len() != 1) {
                    return viol("c05.targets.grouping", "with -t (no --deps) every target must run on its own".into());
                }
            }
            Mode::TargetsDeps(_) => {
                let g: Vec<Vec<usize>> = groups.iter().map(|g| g.keys().map(|t| idx[t]).collect()).collect();
                let expect: BTreeSet<usize> = selected.iter().map(|t| idx[t]).collect();
                if let Err(m) = model::valid_layering(&g, &expect, &adj) {
                    return viol("c05.deps.layering", m);
                }
            }
        }
        for g in groups {
            for (t, r) in g {
                let defined = !case.undefined.contains(&(cmd.clone(), t.clone()));
                let n = by_key.get(&(cmd.clone(), t.clone())).map(|v| v.len()).unwrap_or(0);
                // (a command planned twice runs at each of its places)
                let m = planned.iter().filter(|c| *c == cmd).count();
                if defined && (n > m || (n != m && !failed_mode)) {
                    return viol("c05.started.count", format!("({}, {}) defines the command but was started {} times", cmd, t, n));
                }
                if !defined && n != 0 {
                    return viol("c05.undefined.started", format!("({}, {}) does not define the command but a process was started", cmd, t));
                }
                let want = if defined { "success" } else { "undefined" };
                if !failed_mode && r.status != want {
                    return viol("c05.status", format!("({}, {}) reported {:?}, expected {:?}", cmd, t, r.status, want));
                }
                // a pair reported `success` ran to completion with exit status 0 (the helper's own
                // record; one that was killed leaves none)
                if r.status == "success" {
                    if let Some(v) = by_key.get(&(cmd.clone(), t.clone())) {
                        if v.iter().any(|tr| tr.end_ns.is_some() && tr.exit_code != Some(0)) || (case.failing.is_some() && v.iter().any(|tr| tr.end_ns.is_none())) {
                            return viol(
                                "c05.success.without.clean.exit",
                                format!("({}, {}) is reported `success`, but its process did not run to completion with exit status 0", cmd, t),
                            );
                        }
                    }
                }
            }
        }
    }
    // every started process is the file the target's own configuration resolves to
    for t in &traces {
        let (cmd, target) = bb::trace_key(&env, t);
        if cfg.target(&target).is_some() {
            let want = explicit.get(&(cmd.clone(), target.clone())).cloned().unwrap_or_else(|| bb::simple_cmd_file(cfg, &target, &cmd));
            if env.rel(&t.exe) != want {
                return viol(
                    "c05.wrong.executable",
                    format!("({}, {}) ran {:?}, but the target's command file is {:?}", cmd, target, env.rel(&t.exe), want),
                );
            }
        }
    }
    // nothing outside the selection was started
    for (k, v) in &by_key {
        if !selected.contains(&k.1) || !case.commands.contains(&k.0) {
            return viol("c05.unselected.started", format!("{:?} is not part of the run but was started {} times", k, v.len()));
        }
    }
    // -t: one at a time
    if let Mode::Targets(_) = case.mode {
        let mut iv: Vec<(u128, u128)> = traces.iter().filter_map(|t| t.end_ns.map(|e| (t.start_ns, e))).collect();
        iv.sort();
        for w2 in iv.windows(2) {
            if w2[1].0 < w2[0].1 {
                return viol("c05.targets.overlap", "with -t (no --deps) two executables overlapped in time".into());
            }
        }
    }
    let proper = !selected.is_empty() && selected.len() < all_paths.len();
    let bigger_closure = match &case.mode {
        Mode::TargetsDeps(s) => selected.len() > s.len(),
        _ => false,
    };
    let state = match &case.state {
        State::NoCheckpoint => "state=no-checkpoint",
        State::Clean => "state=clean",
        State::Edits(_) => "state=edits",
        State::EmptyId(_) => "state=checkpoint-with-empty-id+edits",
        State::Committed(_) => "state=commits-after-the-checkpoint",
        State::Pending(..) => "state=pending-recorded+edits",
    };
    Ok(CaseInfo::new(proper || bigger_closure)
        .class(&format!("mode={}", mode_name))
        .class(state)
        .class_if(selected.is_empty(), "empty-selection")
        .class_if(bigger_closure, "closure-larger")
        .class_if(!case.undefined.is_empty(), "some-undefined")
        .class_if(cfg.targets.iter().any(|t| t.commands_path.is_some()), "custom-commands-dir")
        .class_if(linked > 0, "symlinked-command-files")
        .class_if(!explicit.is_empty(), "explicit-definition+same-stem-decoy")
        .class_if(case.via_sequence == 1, "sequence+commands")
        .class_if(case.via_sequence == 2, "a-sequence-step-given-again-with--c")
        .class_if(failed_mode, "one-executable-fails")
        .class_if(noexec_file.is_some(), "the-failing-command-file-lacks-the-x-bit")
        .class_if(cfg.out_dir.is_some(), "out-dir-name-is-a-string-prefix-of-a-target")
        .class_if(selected.len() > 16, "selection>16")
        .class_if(selected.len() > 32, "selection>32")
        .class_if(selected.len() > 64, "selection>64")
        .inv(env.invocations))
}

pub fn run(ctx: &mut Ctx) {
    ctx.rule = "acyclic configuration (<=8 targets, nesting/uses/ignores; plus a size-boundary mode with groups of 14-20, 30-36, 62-68 (thorough: up to 130) independent targets) x repository state (no checkpoint / clean / new files in targets, uses paths, siblings, outside) \
x 1-3 commands with some (command,target) undefined, 25% with one failing executable (then only the result document and at-most-once are judged) x mode (auto / -t S / -t S --deps). oracle: selection == `analyze` taken immediately before (auto), S (-t), model closure(S) (--deps); \
run groups == analyze groups (auto), singletons and non-overlapping helper intervals (-t), valid layering (--deps); every (command,target) once in the result; exactly one start record when \
defined, none when undefined or unselected. non-trivial = selection is a proper non-empty subset, or the closure is strictly larger than S; distinct by SHA-256"
        .to_string();
    ctx.assumptions = vec!["helpers exit 0, except the one failing executable of a quarter of the cases".into(), "new file names are ASCII (quoting of other names is C02's subject)".into()];
    let n = ctx.n(300, 6000);
    ctx.drive("run", strategy, n, check);
    let n2 = ctx.n(30, 500);
    let max_width = if ctx.thorough() { 130 } else { 68 };
    ctx.drive("wide", || strategy_wide(max_width), n2, check);
}

pub fn replay(ctx: &Ctx, label: &str, case: Value) -> Result<(), String> {
    let c: Case = serde_json::from_value(case).map_err(|e| e.to_string())?;
    let r = check(&c, 0);
    ctx.replay_one(label, &c, r);
    Ok(())
}
