//! C10 - the dependency relation is exactly what the configuration declares.

use crate::gen::{self, CycleMode};
use crate::model::{self, ConfigSpec};
use crate::runner::*;
use proptest::prelude::*;
use serde::{Deserialize, Serialize};
use serde_json::{json, Value};
use std::collections::BTreeSet;

#[derive(Debug, Clone, Serialize, Deserialize)]
pub struct Case {
    pub config: ConfigSpec,
}

pub fn strategy(max_targets: usize) -> impl Strategy<Value = Case> {
    gen::raw_config(max_targets, 4, 2).prop_map(|raw| Case {
        config: gen::build_config(&raw, CycleMode::Any),
    })
}

pub fn strategy_big() -> impl Strategy<Value = Case> {
    (strategy(8), gen::filler_count()).prop_map(|(c, (n_fill, pos))| {
        let before = match pos % 4 {
            0 => n_fill,
            1 => 0,
            _ => pick(pos, n_fill + 1),
        };
        Case { config: gen::embed_in_fillers(&c.config, n_fill, before) }
    })
}

pub fn classify(cfg: &ConfigSpec) -> (bool, Vec<&'static str>) {
    let mut sibling = false;
    let mut uses_above = false;
    let mut uses_inside = false;
    let mut nested = false;
    let mut uses_outside = false;
    for t in &cfg.targets {
        for u in &cfg.targets {
            if t.path == u.path {
                continue;
            }
            if model::string_prefix_only(&t.path, &u.path) {
                sibling = true;
            }
            if model::inside(&t.path, &u.path) {
                nested = true;
            }
            for x in &t.uses {
                if model::string_prefix_only(x, &u.path) {
                    sibling = true;
                }
                if x != &u.path && model::inside(x, &u.path) {
                    uses_inside = true;
                }
                if x != &u.path && model::inside(&u.path, x) {
                    uses_above = true;
                }
            }
        }
        for x in &t.uses {
            if !cfg.targets.iter().any(|u| model::inside(x, &u.path) || model::inside(&u.path, x)) {
                uses_outside = true;
            }
        }
    }
    let mut c = vec![];
    if sibling {
        c.push("prefix-sibling");
    }
    if uses_above {
        c.push("uses-above-target");
    }
    if uses_inside {
        c.push("uses-inside-target");
    }
    if uses_outside {
        c.push("uses-outside");
    }
    if nested {
        c.push("nested");
    }
    if cfg.targets.iter().any(|t| t.path.ends_with('/')) {
        c.push("slash-terminated-target-path");
        if cfg.targets.iter().any(|t| t.uses.iter().any(|u| !u.ends_with('/') && cfg.targets.iter().any(|v| v.path == format!("{}/", u)))) {
            c.push("uses-names-slashed-target-without-slash");
        }
    }
    (cfg.targets.len() >= 2 && (sibling || uses_above || uses_inside), c)
}

pub fn judge_edges(cfg: &ConfigSpec, got: &BTreeSet<(String, String)>, what: &str) -> Result<(), CheckError> {
    let want = model::dep_edges(cfg);
    if let Some((f, t)) = got.difference(&want).next() {
        let sig = if model::string_prefix_only(f, t)
            || cfg.target(f).map(|x| x.uses.iter().any(|u| model::string_prefix_only(u, t))).unwrap_or(false)
        {
            "c10.edge.extra.prefix"
        } else {
            "c10.edge.extra"
        };
        return viol_obs(
            sig,
            format!("{}: edge {:?} -> {:?} is not a declared dependency", what, f, t),
            json!({"got": got, "want": want}),
        );
    }
    if let Some((f, t)) = want.difference(got).next() {
        return viol_obs(
            "c10.edge.missing",
            format!("{}: declared dependency {:?} -> {:?} is missing", what, f, t),
            json!({"got": got, "want": want}),
        );
    }
    Ok(())
}

pub fn check(case: &Case, _w: usize) -> CheckResult {
    let cfg = &case.config;
    let res = std::panic::catch_unwind(|| monorail::verif::index_edges(&cfg.to_json(), crate::scratch::universe()));
    let edges = match res {
        Ok(Ok(e)) => e,
        Ok(Err(e)) => return viol("c10.error", format!("index construction failed: {}", e)),
        Err(_) => return viol("c10.panic", "index construction panicked".into()),
    };
    let mut got = BTreeSet::new();
    for e in edges {
        if !got.insert(e.clone()) {
            return viol("c10.edge.duplicate", format!("edge {:?} listed twice", e));
        }
    }
    judge_edges(cfg, &got, "index")?;
    let (nt, classes) = classify(cfg);
    let mut info = CaseInfo::new(nt);
    for c in classes {
        info = info.class(c);
    }
    Ok(info)
}

pub fn golden() -> Vec<Case> {
    let mk = |ts: Vec<(&str, Vec<&str>)>| Case {
        config: ConfigSpec {
            targets: ts
                .into_iter()
                .map(|(p, u)| {
                    let mut t = model::TargetSpec::new(p);
                    t.uses = u.into_iter().map(String::from).collect();
                    t
                })
                .collect(),
            ..Default::default()
        },
    };
    vec![
        mk(vec![("app", vec![]), ("app2", vec![]), ("a", vec![]), ("a-b", vec![])]),
        mk(vec![("a", vec!["app2/f"]), ("app", vec![]), ("app2", vec![])]),
        mk(vec![("a", vec![]), ("a/ab", vec!["lib/f"]), ("lib", vec![]), ("lib/a", vec![])]),
    ]
}

/// The same relation through `monorail target render`.
pub fn check_cli(case: &Case, w: usize) -> CheckResult {
    let cfg = &case.config;
    let mut env = crate::bb::Env::new(w);
    env.install_config(cfg);
    let adj = model::dep_adj(cfg);
    let all: Vec<usize> = (0..cfg.targets.len()).collect();
    let cyclic = model::has_cycle_reachable(&adj, &all);
    // the output path already holds an older, longer rendering (of a configuration that had
    // more targets): "nothing else" covers what is left in the file, too
    let stale = cfg.targets.len() % 3 != 0;
    if stale {
        let mut old = String::from("digraph DAG {\n");
        for i in 0..60 {
            old.push_str(&format!("  {} [label=\"stale/target-{}\"];\n", 1000 + i, i));
        }
        for i in 0..59 {
            old.push_str(&format!("  {} -> {};\n", 1000 + i, 1001 + i));
        }
        old.push_str("}\n");
        env.write_file("graph.dot", old.as_bytes());
    }
    let o = env.mr(&["target", "render", "-f", "graph.dot"]);
    if !o.ok() {
        if cyclic && o.error_type() == "graph" {
            return Ok(CaseInfo::new(false).class("cyclic-rejected").inv(env.invocations));
        }
        return viol_obs("c10.render.failed", "target render failed on an acyclic configuration".into(), o.brief());
    }
    let text = std::fs::read_to_string(env.path("graph.dot")).map_err(|e| Violation::new("c10.render.nofile", e.to_string()))?;
    let mut nodes: std::collections::BTreeMap<usize, String> = Default::default();
    let mut edges: Vec<(usize, usize)> = vec![];
    for line in text.lines() {
        let l = line.trim();
        if l.is_empty() || l.starts_with("//") || l == "digraph DAG {" || l == "}" || l.starts_with("node [") || l.starts_with("edge [") {
            continue;
        }
        if let Some((a, rest)) = l.split_once(" [label=\"") {
            if let (Ok(n), Some(label)) = (a.parse::<usize>(), rest.strip_suffix("\"];")) {
                if nodes.insert(n, label.to_string()).is_some() {
                    return viol("c10.render.node.duplicate", format!("node {} declared twice", n));
                }
                continue;
            }
        }
        if let Some((a, b)) = l.trim_end_matches(';').split_once(" -> ") {
            if let (Ok(x), Ok(y)) = (a.parse::<usize>(), b.parse::<usize>()) {
                edges.push((x, y));
                continue;
            }
        }
        return viol("c10.render.unknown-statement", format!("unexpected statement in the rendered graph: {:?}", l));
    }
    let labels: BTreeSet<String> = nodes.values().cloned().collect();
    let want: BTreeSet<String> = cfg.target_paths().into_iter().collect();
    if labels != want || nodes.len() != cfg.targets.len() {
        return viol_obs(
            "c10.render.nodes",
            "the rendered graph does not have exactly one node per configured target".into(),
            json!({"nodes": nodes, "targets": want}),
        );
    }
    let mut got = BTreeSet::new();
    for (a, b) in edges {
        let (Some(f), Some(t)) = (nodes.get(&a), nodes.get(&b)) else {
            return viol("c10.render.edge.unknown-node", format!("edge {} -> {} names an undeclared node", a, b));
        };
        if !got.insert((f.clone(), t.clone())) {
            return viol("c10.edge.duplicate", format!("edge {:?} -> {:?} rendered twice", f, t));
        }
    }
    judge_edges(cfg, &got, "target render")?;
    let (nt, classes) = classify(cfg);
    let mut info = CaseInfo::new(nt).inv(env.invocations).class_if(stale, "rendered-over-an-older-longer-file");
    for c in classes {
        info = info.class(c);
    }
    Ok(info)
}

/// Regression case of finding F11 (fixed): target written `app2/`, used by another target as `app2`.
pub fn f11_case() -> Case {
    let mut user = model::TargetSpec::new("é");
    user.uses = vec!["app2".into()];
    Case {
        config: ConfigSpec {
            targets: vec![model::TargetSpec::new("app2/"), user],
            ..Default::default()
        },
    }
}

pub fn run(ctx: &mut Ctx) {
    ctx.rule = "in-process: target path sets (nested, disjoint, byte-prefix siblings, 1-3 components) x uses entries (targets, files and \
directories inside targets, directories above targets, outside paths, prefix siblings) x 0-2 ignores entries per target (which must not matter, also where they cover the target's own uses) x declaration order; oracle: set equality of the \
index's edges with dep(T,U). CLI: the same through the file written by `target render` (in two thirds of the cases over an existing, longer rendering of another configuration). non-trivial = >=2 targets and a string-prefix-only \
pair, or a uses entry above/inside a target; distinct by SHA-256 of the case"
        .to_string();
    ctx.assumptions = vec!["edges are compared as a set of (from, to) target paths".into()];
    ctx.drive_all("golden", golden(), "golden regression cases", check);
    ctx.drive_all("golden-f11", vec![f11_case()], "regression case of finding F11 (fixed)", check);
    let n = ctx.n(30_000, 1_000_000);
    ctx.drive("inproc", || strategy(10), n, check);
    ctx.drive("inproc-wide", || strategy(30), n / 10, check);
    ctx.drive("inproc-embedded-in-64-200-targets", strategy_big, n / 40, check);
    ctx.drive_all("golden-cli", golden(), "golden regression cases (CLI)", check_cli);
    let n2 = ctx.n(150, 3000);
    ctx.drive("cli-render", || strategy(8), n2, check_cli);
}

pub fn replay(ctx: &Ctx, label: &str, case: Value) -> Result<(), String> {
    let c: Case = serde_json::from_value(case).map_err(|e| e.to_string())?;
    let r = if label.contains("cli") { check_cli(&c, 0) } else { check(&c, 0) };
    ctx.replay_one(label, &c, r);
    Ok(())
}
