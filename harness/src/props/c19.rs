//! C19 - the checkpoint store reflects the last update; without one everything is changed.

use crate::bb::{self, Behavior};
use crate::hist::{self, Hist, Op};
use crate::props::c01;
use crate::runner::*;
use proptest::collection::vec;
use proptest::prelude::*;
use serde::{Deserialize, Serialize};
use serde_json::{json, Value};
use std::collections::{BTreeMap, BTreeSet};

#[derive(Debug, Clone, Serialize, Deserialize, PartialEq)]
pub enum Step {
    Repo(Op),
    /// id: 0 = none, 1 = existing commit (index), 2 = arbitrary token; pending flag
    Update(u8, u16, bool),
    /// `checkpoint update --id <token> -p --git-path <nonexistent>`: fails while collecting
    /// pending changes; an unsuccessful update must not change what is stored
    FailingUpdate(u16),
    Show,
    Delete,
    OutDeleteAll,
    /// `out delete` without --all: reports the size, removes nothing - the checkpoint stays
    OutDeletePlain,
    Analyze,
    Run,
}

#[derive(Debug, Clone, Serialize, Deserialize)]
pub struct Case {
    pub ignore_out: bool,
    pub steps: Vec<Step>,
}

pub fn strategy() -> impl Strategy<Value = Case> {
    let repo = prop_oneof![
        6 => Just(Op::CommitAll),
        6 => any::<u16>().prop_map(Op::Edit),
        3 => (any::<u16>(), any::<u16>()).prop_map(|(a, b)| Op::Create(a, b)),
        3 => any::<u16>().prop_map(Op::Delete),
        1 => any::<u16>().prop_map(Op::BulkCreate),
        2 => Just(Op::PackRefs),
        1 => any::<u16>().prop_map(Op::CaseVariant),
        3 => any::<u16>().prop_map(Op::ResetSoft),
        1 => (any::<u16>(), any::<u16>()).prop_map(|(a, b)| Op::BlankEdgeName(a, b)),
    ];
    let step = prop_oneof![
        4 => repo.prop_map(Step::Repo),
        4 => (0u8..4, any::<u16>(), any::<bool>()).prop_map(|(k, i, p)| Step::Update(k, i, p)),
        2 => any::<u16>().prop_map(Step::FailingUpdate),
        4 => Just(Step::Show),
        2 => Just(Step::Delete),
        1 => Just(Step::OutDeleteAll),
        2 => Just(Step::OutDeletePlain),
        3 => Just(Step::Analyze),
        2 => Just(Step::Run),
    ];
    (any::<bool>(), vec(step, 0..20), proptest::option::weighted(0.3, (any::<u16>(), any::<u16>(), any::<u16>(), any::<bool>()))).prop_map(|(ignore_out, mut steps, rewind)| {
        // a third of the histories contain the block "commit, update, HEAD moves back to an earlier
        // commit, update again" (bisecting, checking out a tag) at a generated place
        if let Some((pos, k, f, pending)) = rewind {
            let at = pick(pos, steps.len() + 1);
            let block = vec![
                Step::Repo(Op::Edit(f)),
                Step::Repo(Op::CommitAll),
                Step::Update(0, 0, false),
                Step::Repo(Op::ResetSoft(k)),
                Step::Update(0, 0, pending),
                Step::Show,
            ];
            steps.splice(at..at, block);
        }
        Case { ignore_out, steps }
    })
}

pub fn check(case: &Case, w: usize) -> CheckResult {
    let cfg = hist::config();
    let mut h = match Hist::new(w, &cfg, case.ignore_out) {
        Ok(h) => h,
        Err(e) => return inconclusive(e),
    };
    let mut beh = BTreeMap::new();
    for t in &cfg.targets {
        beh.insert(("c0".to_string(), t.path.clone()), Behavior::default());
    }
    bb::install_simple(&h.env, &cfg, &beh);
    h.scan_worktree();
    if let Err(e) = h.commit_all() {
        return inconclusive(e);
    }
    let mut all_targets = cfg.target_paths();
    all_targets.sort();
    let mut model: Option<Value> = None;
    let mut distinct_updates: BTreeSet<String> = BTreeSet::new();
    let mut deleted_after_update = false;
    let mut judged_without = false;
    let mut had_update = false;
    let mut classes: BTreeSet<&'static str> = BTreeSet::new();
    for (si, st) in case.steps.iter().enumerate() {
        match st {
            Step::Repo(op) => {
                if let Err(e) = h.apply(op) {
                    return inconclusive(format!("op {:?} failed: {}", op, e));
                }
            }
            Step::Update(kind, idx, pending) => {
                let mut args = vec!["checkpoint".to_string(), "update".to_string()];
                let want_id = match kind {
                    0 => h.head_sha().to_string(),
                    1 => {
                        let c = pick(*idx, h.commits.len());
                        let sha = h.commits[c].0.clone();
                        args.push("--id".into());
                        args.push(sha.clone());
                        classes.insert("update --id <commit>");
                        sha
                    }
                    3 => {
                        // a name git can resolve, stored as given: branch, HEAD, an abbreviated id
                        let sha = h.head_sha().to_string();
                        let name = match idx % 4 {
                            0 => "main".to_string(),
                            1 => "HEAD".to_string(),
                            2 => sha[..9.min(sha.len())].to_string(),
                            _ => {
                                if h.commits.len() >= 2 {
                                    "HEAD~1".to_string()
                                } else {
                                    "HEAD".to_string()
                                }
                            }
                        };
                        args.push("--id".into());
                        args.push(name.clone());
                        classes.insert("update --id <symbolic name>");
                        name
                    }
                    _ => {
                        // an arbitrary token; one in four is the empty string (`--id ""` is accepted
                        // and stored like any other id)
                        let tok = if idx % 4 == 3 { String::new() } else { format!("token-{}", idx) };
                        args.push("--id".into());
                        args.push(tok.clone());
                        classes.insert("update --id <token>");
                        tok
                    }
                };
                if *pending {
                    args.push("-p".into());
                    classes.insert("update -p");
                }
                let argv: Vec<&str> = args.iter().map(|s| s.as_str()).collect();
                let o = h.env.mr(&argv);
                let Some(v) = o.json().filter(|_| o.ok()) else {
                    return viol_obs("c19.update.failed", format!("step {}: checkpoint update failed", si), o.brief());
                };
                let Some(cp) = v.get("checkpoint").cloned() else {
                    return viol("c19.update.output", "update output lacks `checkpoint`".into());
                };
                let id = cp.get("id").and_then(|i| i.as_str()).unwrap_or("");
                if id != want_id {
                    return viol(
                        "c19.update.id",
                        format!(
                            "step {}: update recorded id {:?}, expected {:?} ({})",
                            si,
                            id,
                            want_id,
                            if *kind == 0 { "the commit HEAD resolves to" } else { "the given --id" }
                        ),
                    );
                }
                distinct_updates.insert(cp.to_string());
                model = Some(cp);
                had_update = true;
            }
            Step::FailingUpdate(tok) => {
                let id = format!("failing-{}", tok);
                let o = h.env.mr(&["checkpoint", "update", "--id", &id, "-p", "--git-path", "/nonexistent/bin/git"]);
                if o.code == Some(0) {
                    return inconclusive("an update with a nonexistent git binary succeeded".into());
                }
                classes.insert("failing update");
                // the model stays as it is: show (judged at the next Show step and right here)
                let s2 = h.env.mr(&["checkpoint", "show"]);
                match (&model, s2.json().filter(|_| s2.ok())) {
                    (Some(m), Some(v)) if v.get("checkpoint") == Some(m) => {}
                    (None, None) => {}
                    (m, got) => {
                        return viol_obs(
                            "c19.failed.update.changed.store",
                            format!("step {}: an unsuccessful `checkpoint update` changed what `checkpoint show` returns", si),
                            json!({"last_successful_update": m, "shown": got.and_then(|v| v.get("checkpoint").cloned()), "stderr": s2.stderr_str()}),
                        )
                    }
                }
            }
            Step::Show => {
                let o = h.env.mr(&["checkpoint", "show"]);
                match (&model, o.json().filter(|_| o.ok())) {
                    (Some(m), Some(v)) => {
                        if v.get("checkpoint") != Some(m) {
                            return viol_obs(
                                "c19.show.differs",
                                format!("step {}: `checkpoint show` differs from what the last update returned", si),
                                json!({"shown": v.get("checkpoint"), "last_update": m}),
                            );
                        }
                    }
                    (None, None) => {
                        if o.code == Some(0) {
                            return viol("c19.show.exit", "show printed nothing but exited 0".into());
                        }
                    }
                    (Some(_), None) => {
                        return viol_obs("c19.show.failed", format!("step {}: a checkpoint exists but `checkpoint show` failed", si), o.brief());
                    }
                    (None, Some(v)) => {
                        return viol_obs(
                            "c19.show.resurrected",
                            format!("step {}: no checkpoint should exist but `checkpoint show` returned one", si),
                            v,
                        );
                    }
                }
            }
            Step::Delete => {
                let o = h.env.mr(&["checkpoint", "delete"]);
                if model.is_some() {
                    if !o.ok() {
                        return viol_obs("c19.delete.failed", format!("step {}: checkpoint delete failed", si), o.brief());
                    }
                    deleted_after_update = true;
                    classes.insert("checkpoint delete");
                }
                model = None;
            }
            Step::OutDeletePlain => {
                if h.env.path("monorail-out").exists() {
                    let o = h.env.mr(&["out", "delete"]);
                    if !o.ok() {
                        return viol_obs("c19.outdelete.failed", format!("step {}: out delete failed", si), o.brief());
                    }
                    classes.insert("out delete (without --all)");
                    // the model stays as it is: the next `show` must still return the last update
                }
            }
            Step::OutDeleteAll => {
                let existed = h.env.path("monorail-out").exists();
                let o = h.env.mr(&["out", "delete", "--all"]);
                if existed {
                    if !o.ok() {
                        return viol_obs("c19.outdelete.failed", format!("step {}: out delete --all failed", si), o.brief());
                    }
                    if model.is_some() {
                        deleted_after_update = true;
                    }
                    classes.insert("out delete --all");
                    model = None;
                }
            }
            Step::Analyze => {
                if model.is_some() {
                    continue; // judged by C02 / C07
                }
                // an explicit interval does not stand in for a checkpoint either
                let first = h.commits[0].0.clone();
                let last = h.commits[h.head()].0.clone();
                let argv: Vec<&str> = match si % 3 {
                    0 => vec!["analyze", "--target-groups"],
                    1 => vec!["analyze", "--target-groups", "--begin", &first],
                    _ => vec!["analyze", "--target-groups", "--begin", &first, "--end", &last],
                };
                if si % 3 != 0 {
                    classes.insert("analyze --begin without a checkpoint");
                }
                let o = h.env.mr(&argv);
                let Some(v) = o.json() else {
                    return viol_obs("c19.analyze.failed", format!("step {}: analyze failed without a checkpoint", si), o.brief());
                };
                let p = c01::parse_analyze(&v).map_err(|e| Violation::new("c19.output", e))?;
                if p.checkpointed || p.targets != all_targets {
                    return viol_obs(
                        "c19.analyze.nocheckpoint",
                        format!("step {}: without a checkpoint analyze must report checkpointed=false and every configured target", si),
                        json!({"checkpointed": p.checkpointed, "targets": p.targets}),
                    );
                }
                judged_without |= had_update;
            }
            Step::Run => {
                if model.is_some() {
                    // what it runs is C05's / C07's subject; here it only must leave the stored
                    // checkpoint as the last update wrote it (the next `show` compares)
                    let _ = h.env.mr(&["run", "-c", "c0"]);
                    classes.insert("run while a checkpoint exists");
                    let o = h.env.mr(&["checkpoint", "show"]);
                    let shown = o.json().filter(|_| o.ok()).and_then(|v| v.get("checkpoint").cloned());
                    if shown.as_ref() != model.as_ref() {
                        return viol_obs(
                            "c19.show.differs.after-run",
                            format!("step {}: after a `run` the stored checkpoint is no longer what the last update returned", si),
                            json!({"shown": shown, "last_update": model}),
                        );
                    }
                    continue;
                }
                h.env.clear_traces();
                let o = h.env.mr(&["run", "-c", "c0"]);
                let Some(doc) = o.json() else {
                    return viol_obs("c19.run.failed", format!("step {}: run failed without a checkpoint", si), o.brief());
                };
                let run = bb::parse_run(&doc).map_err(|e| Violation::new("c19.output", e))?;
                let listed: BTreeSet<String> = run.results.iter().flat_map(|r| r.1.iter().flat_map(|g| g.keys().cloned())).collect();
                let started: BTreeSet<String> = h.env.traces().iter().map(|t| bb::trace_key(&h.env, t).1).collect();
                let all: BTreeSet<String> = all_targets.iter().cloned().collect();
                if listed != all || started != all || run.checkpointed {
                    return viol_obs(
                        "c19.run.nocheckpoint",
                        format!("step {}: without a checkpoint run must cover every target", si),
                        json!({"listed": listed, "started": started, "checkpointed": run.checkpointed}),
                    );
                }
                judged_without |= had_update;
            }
        }
    }
    let mut info = CaseInfo::new(distinct_updates.len() >= 2 || (deleted_after_update && judged_without))
        .class_if(distinct_updates.len() >= 2, "updates>=2")
        .class_if(deleted_after_update && judged_without, "delete-then-observe")
        .inv(h.env.invocations);
    for c in classes {
        info = info.class(c);
    }
    Ok(info)
}

pub fn run(ctx: &mut Ctx) {
    ctx.rule = "stateful: up to 20 steps over {commit, edit, create, delete file, checkpoint update (no flags / --id <existing sha> / --id <branch, HEAD, HEAD~1, abbreviated sha> / --id <arbitrary token> / -p), updates that fail while collecting pending changes (nonexistent --git-path), show, checkpoint delete, \
out delete --all, analyze, run}. model: Option<checkpoint object returned by the last update>. oracle: show == model or fails iff none; update without --id records the harness's own \
`git rev-parse HEAD`; after delete / out delete --all: show fails, analyze reports checkpointed=false and all targets, run lists and starts every target. \
non-trivial = >= 2 updates with different results, or a delete after an update followed by analyze/run; distinct by SHA-256"
        .to_string();
    ctx.assumptions = vec!["analyze/run are only judged in the no-checkpoint state here (C02/C05/C07 judge the other)".into()];
    let n = ctx.n(300, 6000);
    ctx.drive("history", strategy, n, check);
}

pub fn replay(ctx: &Ctx, label: &str, case: Value) -> Result<(), String> {
    let c: Case = serde_json::from_value(case).map_err(|e| e.to_string())?;
    let r = check(&c, 0);
    ctx.replay_one(label, &c, r);
    Ok(())
}
