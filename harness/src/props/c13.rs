//! C13 - a crash during `run` never damages previously recorded state.

use crate::bb::{self, Behavior, Env, Step};
use crate::gen;
use crate::model::ConfigSpec;
use crate::runner::*;
use proptest::collection::vec;
use proptest::prelude::*;
use serde::{Deserialize, Serialize};
use serde_json::{json, Value};
use std::collections::BTreeMap;
use std::path::Path;
use std::time::Duration;

#[derive(Debug, Clone, Serialize, Deserialize)]
pub struct Case {
    pub max_retained: usize,
    pub baseline_runs: usize,
    pub checkpoint: bool,
    pub layers: Vec<usize>,
    pub picks: Vec<u16>,
    pub sleeps: Vec<u64>,
    /// timed SIGKILLs: fraction of the victim's duration (x/65536)
    pub kills: Vec<u16>,
    /// enumerate every guarded (point, hit) of the victim
    pub enumerate: bool,
    /// visit every hit of every point (thorough) or at most first/middle/last per point
    #[serde(default)]
    pub all_hits: bool,
    /// a series of crashes without any completed run in between (each entry selects an early
    /// guarded point, i.e. one before the run's own records are written)
    #[serde(default)]
    pub series: Vec<u16>,
    /// the last completed run before the victim is one that failed (an executable exits 1)
    #[serde(default)]
    pub last_baseline_fails: bool,
}

pub fn strategy(kills: usize, enumerate: bool, all_hits: bool) -> impl Strategy<Value = Case> {
    strategy_series(kills, enumerate, all_hits, 0)
}

pub fn strategy_series(kills: usize, enumerate: bool, all_hits: bool, series: usize) -> impl Strategy<Value = Case> {
    (
        // mostly small rings; one case in seven has a ring of 10-12 slots (two-digit slot names),
        // filled so that the victim takes the last slot, wraps to the first, or takes the second
        prop_oneof![6 => 2usize..=4, 1 => 10usize..=12],
        0usize..=5,
        any::<bool>(),
        vec(1usize..=3, 2..=3),
        vec(any::<u16>(), 8),
        vec(20u64..=120, 12),
        vec(any::<u16>(), kills),
        vec(any::<u16>(), if series == 0 { 0..=0 } else { 2..=series }),
    )
        .prop_map(move |(m, b, checkpoint, layers, picks, sleeps, kills, series)| Case {
            last_baseline_fails: picks[0] % 3 == 0,
            series,
            max_retained: m,
            baseline_runs: if m >= 10 { m - 1 + b % 3 } else { b.min(m + 1) },
            checkpoint,
            layers,
            picks,
            sleeps,
            kills,
            enumerate,
            all_hits,
        })
}

/// Rings with two-digit slot names whose last slot holds the last completed run: the victim wraps
/// to slot 1 (`1` is a string prefix of `10`, `11`, `12`).
pub fn strategy_ring(kills: usize, enumerate: bool) -> impl Strategy<Value = Case> {
    strategy(kills, enumerate, false).prop_map(|mut c| {
        c.max_retained = 10 + c.picks[1] as usize % 3;
        c.baseline_runs = c.max_retained + if c.picks[2] % 4 == 0 { c.max_retained } else { 0 };
        c
    })
}

fn copy_dir(src: &Path, dst: &Path) -> std::io::Result<()> {
    std::fs::create_dir_all(dst)?;
    for e in std::fs::read_dir(src)? {
        let e = e?;
        let p = e.path();
        let d = dst.join(e.file_name());
        if p.is_dir() {
            copy_dir(&p, &d)?;
        } else {
            std::fs::copy(&p, &d)?;
        }
    }
    Ok(())
}

#[derive(Debug, Clone, PartialEq, Serialize)]
struct Obs {
    checkpoint: (Option<i32>, Value),
    result: (Option<i32>, Value),
    logs: (Option<i32>, String),
}

fn observe(env: &mut Env) -> Obs {
    let cp = env.mr(&["checkpoint", "show"]);
    let rs = env.mr(&["result", "show"]);
    let lg = env.mr(&["log", "show", "--stdout", "--stderr"]);
    let val = |o: &bb::MrOut| -> Value {
        match o.json() {
            // runtime_secs legitimately differs between two executions of the same run
            Some(v) if o.ok() => bb::normalize_run_doc(&v),
            _ => json!({"error_type": o.error_type()}),
        }
    };
    // log show prints blocks in directory order; compare as a sorted block list
    let (_pre, mut blocks) = bb::parse_blocks(&lg.stdout);
    blocks.sort();
    let logs = if lg.ok() {
        blocks
            .iter()
            .map(|b| format!("{}|{}|{}|{}", b.stream, b.target, b.command, String::from_utf8_lossy(&b.bytes)))
            .collect::<Vec<_>>()
            .join("\n")
    } else {
        format!("error:{}", lg.error_type())
    };
    Obs {
        checkpoint: (cp.code, val(&cp)),
        result: (rs.code, val(&rs)),
        logs: (lg.code, logs),
    }
}

const LATE_POINTS: [&str; 5] = [
    "tracking.run.truncated",
    "tracking.run.tmp.written",
    "tracking.run.written",
    "run.pointer.saved",
    "lock.release",
];

pub fn check(case: &Case, w: usize) -> CheckResult {
    let mut cfg: ConfigSpec = gen::layered_config(&case.layers, &case.picks);
    cfg.max_retained_runs = Some(case.max_retained);
    let mut env = Env::new(w);
    env.install_config(&cfg);
    let plan_for = |tag: &str, sleeps: bool| -> BTreeMap<(String, String), Behavior> {
        let mut beh = BTreeMap::new();
        let mut k = 0;
        for c in ["c0", "c1"] {
            for t in &cfg.targets {
                k += 1;
                beh.insert(
                    (c.to_string(), t.path.clone()),
                    Behavior {
                        // long sleeps only matter for the timed kills
                        sleep_ms: if sleeps { case.sleeps[k % case.sleeps.len()] / if case.enumerate { 6 } else { 1 } } else { 0 },
                        out: vec![Step::W(format!("{}|{}|{}|out\n", tag, c, t.path).into_bytes())],
                        err: vec![Step::W(format!("{}|{}|{}|err\n", tag, c, t.path).into_bytes())],
                        ..Default::default()
                    },
                );
            }
        }
        beh
    };
    // baseline: completed runs (and possibly a checkpoint)
    if case.checkpoint {
        let o = env.mr(&["checkpoint", "update", "--id", "baseline-token"]);
        if !o.ok() {
            return inconclusive(format!("checkpoint update failed: {}", o.brief()));
        }
    }
    let tops: Vec<String> = cfg.targets.iter().map(|t| t.path.clone()).collect();
    let mut victim_args: Vec<String> = vec!["run".into(), "-c".into(), "c0".into(), "c1".into()];
    let mut base_args: Vec<String> = vec!["run".into(), "-c".into(), "c0".into()];
    if case.checkpoint {
        // with a checkpoint, select explicitly (no git repository here)
        for a in [&mut victim_args, &mut base_args] {
            a.push("-t".into());
            a.extend(tops.iter().cloned());
            a.push("--deps".into());
        }
    }
    for b in 0..case.baseline_runs {
        let mut plan = plan_for(&format!("baseline{}", b), false);
        let fails = case.last_baseline_fails && b + 1 == case.baseline_runs;
        if fails {
            if let Some(beh) = plan.values_mut().next() {
                beh.exit = 1;
            }
        }
        bb::install_simple(&env, &cfg, &plan);
        let argv: Vec<&str> = base_args.iter().map(|s| s.as_str()).collect();
        let o = env.mr(&argv);
        if (!fails && !o.ok()) || (fails && o.code != Some(1)) {
            return inconclusive(format!("baseline run did not end as planned: {}", o.brief()));
        }
    }
    bb::install_simple(&env, &cfg, &plan_for("victim", true));
    let out_dir = env.path("monorail-out");
    let snap_dir = env.case_dir.join("snap");
    let had_out = out_dir.exists();
    if had_out {
        copy_dir(&out_dir, &snap_dir).map_err(|e| Inconclusive(e.to_string()))?;
    }
    let before = observe(&mut env);
    // observing may create the tracking directory; snapshot again so restores are exact
    let _ = std::fs::remove_dir_all(&snap_dir);
    if out_dir.exists() {
        copy_dir(&out_dir, &snap_dir).map_err(|e| Inconclusive(e.to_string()))?;
    }
    let restore = |env: &Env| -> Result<(), CheckError> {
        let _ = std::fs::remove_dir_all(env.path("monorail-out"));
        if snap_dir.exists() {
            copy_dir(&snap_dir, &env.path("monorail-out")).map_err(|e| Inconclusive(e.to_string()))?;
        }
        Ok(())
    };
    let vargv: Vec<&str> = victim_args.iter().map(|s| s.as_str()).collect();

    // reference execution of the victim: its points, duration and resulting state
    let log_path = env.case_dir.join("points.log");
    let t0 = std::time::Instant::now();
    let o = env.mr_env(&vargv, &[("MRV_POINT_LOG", log_path.display().to_string())], Duration::from_secs(120));
    let victim_wall = t0.elapsed();
    if !o.ok() {
        return inconclusive(format!("victim run does not succeed on its own: {}", o.brief()));
    }
    let after_complete = observe(&mut env);
    let mut points: Vec<(String, u64)> = vec![];
    for line in std::fs::read_to_string(&log_path).unwrap_or_default().lines() {
        let f: Vec<&str> = line.split_whitespace().collect();
        if f.len() == 4 {
            points.push((f[1].to_string(), f[2].parse().unwrap_or(0)));
        }
    }
    if points.is_empty() {
        return inconclusive("no guarded point was logged (hooks not compiled in?)".into());
    }
    restore(&env)?;

    let mut info = CaseInfo::new(false);
    let mut crashes = 0u64;
    let mut judge = |env: &mut Env, what: &str, late: bool| -> Result<(), CheckError> {
        env.kill_groups();
        let after = observe(env);
        let sig_suffix = what.split('@').next().unwrap_or(what).to_string();
        if after.checkpoint != before.checkpoint {
            return viol_obs(
                &format!("c13.checkpoint.changed.{}", sig_suffix),
                format!("crash at {}: `checkpoint show` changed", what),
                json!({"before": before.checkpoint, "after": after.checkpoint}),
            );
        }
        let same_as_before = after.result == before.result && after.logs == before.logs;
        let same_as_complete = after.result == after_complete.result && after.logs == after_complete.logs;
        let ok = same_as_before || (late && same_as_complete);
        if !ok {
            return viol_obs(
                &format!("c13.state.damaged.{}", sig_suffix),
                format!(
                    "crash at {}: result show / log show are neither the last completed run{} ",
                    what,
                    if late { " nor the complete record of the killed run" } else { " (the kill happened before the run's pointer write)" }
                ),
                json!({"before": {"result": before.result, "logs": before.logs}, "after": {"result": after.result, "logs": after.logs}}),
            );
        }
        // the next run succeeds normally; it is a different run (one command instead of two),
        // so anything the killed run left in its slot would show
        bb::install_simple(env, &cfg, &plan_for("after", false));
        let bargv: Vec<&str> = base_args.iter().map(|s| s.as_str()).collect();
        let o = env.mr(&bargv);
        bb::install_simple(env, &cfg, &plan_for("victim", true));
        if !o.ok() {
            return viol_obs(
                &format!("c13.next.run.fails.{}", sig_suffix),
                format!("crash at {}: the next run does not succeed", what),
                o.brief(),
            );
        }
        let shown = env.mr(&["result", "show"]);
        match (o.json(), shown.json()) {
            (Some(a), Some(b)) if bb::strip_timestamp(&a) == bb::strip_timestamp(&b) => {}
            _ => {
                return viol_obs(
                    &format!("c13.next.run.result.{}", sig_suffix),
                    format!("crash at {}: after the next run `result show` does not return its document", what),
                    shown.brief(),
                )
            }
        }
        let logs = env.mr(&["log", "show", "--stdout", "--stderr"]);
        let text = logs.stdout_str();
        let foreign = text.lines().find(|l| l.contains('|') && !l.starts_with("after|") && !l.starts_with('['));
        if !logs.ok() || foreign.is_some() {
            return viol_obs(
                &format!("c13.next.run.logs.{}", sig_suffix),
                format!("crash at {}: after the next run `log show` fails or shows output that is not that run's", what),
                json!({"log_show": logs.brief(), "foreign_line": foreign}),
            );
        }
        Ok(())
    };

    if case.enumerate {
        let mut max_hit: BTreeMap<String, u64> = BTreeMap::new();
        for (name, hit) in &points {
            let e = max_hit.entry(name.clone()).or_insert(0);
            *e = (*e).max(*hit);
        }
        for (name, hit) in &points {
            if name == "lock.acquired" {
                continue; // nothing has happened yet; covered by run.begin
            }
            if !case.all_hits {
                let m = max_hit[name];
                if !(*hit == 1 || *hit == m || *hit == (m + 1) / 2) {
                    continue;
                }
            }
            restore(&env)?;
            let spec = format!("{}=crash@{}", name, hit);
            let o = env.mr_env(&vargv, &[("MRV_POINTS", spec.clone())], Duration::from_secs(120));
            if o.signal != Some(9) {
                // point not reached in this execution (schedules differ): nothing to judge
                info = info.class("point-not-reached");
                continue;
            }
            crashes += 1;
            let late = LATE_POINTS.contains(&name.as_str());
            judge(&mut env, &format!("{}@{}", name, hit), late)?;
            info = info.class(&format!("point={}", name));
        }
    }
    for k in &case.kills {
        restore(&env)?;
        let delay = Duration::from_micros((victim_wall.as_micros() as u64 * (*k as u64 + 1)) >> 16);
        let mut r = env.mr_spawn(&vargv, &[]);
        std::thread::sleep(delay);
        r.kill();
        let o = r.wait(Duration::from_secs(60));
        if o.signal != Some(9) {
            info = info.class("kill-after-exit");
            continue;
        }
        crashes += 1;
        judge(&mut env, &format!("sigkill@{}us", delay.as_micros()), true)?;
        let phase = (*k as u64 * 4) >> 16;
        info = info.class(&format!("sigkill-phase-{}", phase));
    }
    if !case.series.is_empty() {
        // several crashes in a row, no completed run in between: the state left by one crash is
        // the state the next invocation starts from
        let early: Vec<(String, u64)> = points
            .iter()
            .filter(|(n, h)| *h == 1 && n != "lock.acquired" && n != "lock.attempt" && !LATE_POINTS.contains(&n.as_str()) && !n.starts_with("tracking.") && !n.starts_with("run.pointer"))
            .cloned()
            .collect();
        if !early.is_empty() {
            restore(&env)?;
            let mut delivered = 0;
            for (k, sel) in case.series.iter().enumerate() {
                let (name, hit) = &early[pick(*sel, early.len())];
                let spec = format!("{}=crash@{}", name, hit);
                let o = env.mr_env(&vargv, &[("MRV_POINTS", spec.clone())], Duration::from_secs(120));
                if o.signal != Some(9) {
                    info = info.class("point-not-reached");
                    continue;
                }
                delivered += 1;
                crashes += 1;
                env.kill_groups();
                let after = observe(&mut env);
                if after.checkpoint != before.checkpoint || after.result != before.result || after.logs != before.logs {
                    return viol_obs(
                        "c13.state.damaged.series",
                        format!("crash #{} in a row (at {}): checkpoint / result show / log show no longer return the last completed run", k + 1, spec),
                        json!({"before": {"result": before.result, "logs": before.logs}, "after": {"result": after.result, "logs": after.logs}}),
                    );
                }
            }
            if delivered > 0 {
                // and the next run still succeeds
                let o = env.mr(&vargv);
                if !o.ok() {
                    return viol_obs("c13.next.run.fails.series", format!("after {} crashes in a row the next run does not succeed", delivered), o.brief());
                }
                info = info.class(&format!("crashes-in-a-row={}", delivered));
            }
        }
    }
    info.nontrivial = case.baseline_runs >= 1 && crashes > 0;
    info = info
        .class_if(case.checkpoint, "with-checkpoint")
        .class_if(case.baseline_runs == 0, "no-previous-run")
        .class_if(case.last_baseline_fails && case.baseline_runs > 0, "last-completed-run-had-failed")
        .class_if(case.baseline_runs > case.max_retained, "slots-wrapped")
        .class(&format!("M={}", case.max_retained));
    info.invocations = env.invocations;
    Ok(info)
}

pub fn run(ctx: &mut Ctx) {
    ctx.hang_limit = Duration::from_secs(900);
    ctx.shrink_budget = Duration::from_secs(20);
    ctx.rule = "max_retained_runs in 2..4 (one case in seven, and two dedicated phases: 10..12, filled so that the victim wraps from the last two-digit slot to slot 1), 0..M+1 completed baseline runs, checkpoint present or not, a victim run of 2 commands over 2-3 layered groups with helpers sleeping 20-120 ms. \
enumeration scenarios: the victim is first executed with the point log to learn every guarded (point, hit#) it reaches, then once per entry (quick tier: first, middle and last hit of each point; thorough: every hit) with `crash@hit` (SIGKILL of itself at that point) from a restored \
copy of the pre-state; timed scenarios: SIGKILL of the monorail process after a generated fraction of the victim's duration; series scenarios: 2-5 crashes in a row at early guarded points without a completed run in between (state compared after each, then a run must succeed). oracle after each crash: `checkpoint show` unchanged; (`result show`, `log show`) equal to \
the pre-state, or - only for kills at/after the pointer write, and for timed kills - equal to the completed victim's record; then a fresh run exits 0 and `result show` returns its document. \
evaluations = scenarios; cli_invocations counts the individual executions. non-trivial = at least one previous completed run and at least one crash delivered; distinct by SHA-256"
        .to_string();
    ctx.assumptions = vec![
        "crash points are the guarded points only; crashes between two syscalls not separated by a point are reached by the timed kills".into(),
        "power-loss semantics (unsynced data) are out of scope".into(),
    ];
    let n = ctx.n(16, 120);
    let all_hits = ctx.thorough();
    ctx.drive("enumerate-points", || strategy(0, true, all_hits), n, check);
    let n2 = ctx.n(16, 300);
    ctx.drive("timed-sigkill", || strategy(5, false, false), n2, check);
    let n4 = ctx.n(3, 40);
    ctx.drive("two-digit-ring-wrap-enumerate", || strategy_ring(0, true), n4, check);
    ctx.drive("two-digit-ring-wrap-timed", || strategy_ring(4, false), n4, check);
    let n3 = ctx.n(12, 150);
    ctx.drive("crashes-in-a-row", || strategy_series(0, false, false, 5), n3, check);
}

pub fn replay(ctx: &Ctx, label: &str, case: Value) -> Result<(), String> {
    let c: Case = serde_json::from_value(case).map_err(|e| e.to_string())?;
    let r = check(&c, 0);
    ctx.replay_one(label, &c, r);
    Ok(())
}
