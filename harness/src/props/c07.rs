//! C07 - after `checkpoint update -p` nothing is changed; later edits re-flag exactly.

use crate::bb::{self, Behavior};
use crate::hist::{self, Hist, Op};
use crate::model;
use crate::props::c01;
use crate::runner::*;
use proptest::collection::vec;
use proptest::prelude::*;
use serde::{Deserialize, Serialize};
use serde_json::{json, Value};
use std::collections::{BTreeMap, BTreeSet};

#[derive(Debug, Clone, Serialize, Deserialize, PartialEq)]
pub enum Step {
    Repo(Op),
    UpdatePending,
}

#[derive(Debug, Clone, Serialize, Deserialize)]
pub struct Case {
    /// size class of the hot file (0 = leave it small)
    #[serde(default)]
    pub hot_big: u16,
    #[serde(default)]
    pub hot: u16,
    pub ignore_out: bool,
    pub prefix: Vec<Op>,
    pub steps: Vec<Step>,
}

fn later_op() -> impl Strategy<Value = Op> {
    prop_oneof![
        3 => (any::<u16>(), any::<u16>()).prop_map(|(a, b)| Op::Create(a, b)),
        4 => any::<u16>().prop_map(Op::Edit),
        4 => any::<u16>().prop_map(Op::Delete),
        3 => any::<u16>().prop_map(Op::Recreate),
        1 => (any::<u16>(), any::<u16>(), any::<u16>()).prop_map(|(a, b, c)| Op::BigWrite(a, b, c)),
        3 => any::<u16>().prop_map(Op::TailEdit),
        2 => any::<u16>().prop_map(Op::Rewrite),
        2 => any::<u16>().prop_map(Op::EditOldMtime),
        2 => any::<u16>().prop_map(Op::MakeEmpty),
        2 => (any::<u16>(), any::<u16>(), any::<u16>()).prop_map(|(a, b, c)| Op::CopyContent(a, b, c)),
        2 => (any::<u16>(), any::<u16>(), any::<u16>(), any::<bool>()).prop_map(|(a, b, c, d)| Op::Move(a, b, c, d)),
        1 => Just(Op::StageAll),
        3 => Just(Op::CommitAll),
        1 => Just(Op::CommitStaged),
        2 => any::<u16>().prop_map(Op::Restore),
        1 => any::<u16>().prop_map(Op::RmCached),
        3 => any::<u16>().prop_map(Op::CaseVariant),
        1 => any::<u16>().prop_map(Op::ResetSoft),
        3 => (any::<u16>(), any::<u16>()).prop_map(|(a, b)| Op::BlankEdgeName(a, b)),
        3 => any::<u16>().prop_map(Op::OutDirSibling),
    ]
}

pub fn strategy() -> impl Strategy<Value = Case> {
    let step = prop_oneof![
        3 => later_op().prop_map(Step::Repo),
        1 => Just(Step::UpdatePending),
    ];
    // focused mode: a few operations on one hot file, so that delete / re-create / commit /
    // update round trips on the same path are frequent
    let focused = prop_oneof![
        3 => Just(Step::Repo(Op::HotEdit)),
        2 => Just(Step::Repo(Op::HotTailEdit)),
        2 => Just(Step::Repo(Op::HotEditOldMtime)),
        3 => Just(Step::Repo(Op::HotEmpty)),
        3 => (any::<u16>(), any::<u16>()).prop_map(|(a, b)| Step::Repo(Op::HotCopy(a, b))),
        3 => Just(Step::Repo(Op::HotDelete)),
        2 => Just(Step::Repo(Op::Restore(0))),
        2 => Just(Step::Repo(Op::CommitAll)),
        3 => Just(Step::UpdatePending),
        1 => later_op().prop_map(Step::Repo),
    ];
    // block mode: (touch the hot file, maybe commit, update) repeated, then touch it again
    let blocks = (vec((0u8..6, any::<bool>()), 1..5), vec(0u8..6, 1..3)).prop_map(|(bl, fin)| {
        let touch = |k: u8| match k {
            0 => Op::HotDelete,
            1 => Op::HotEdit,
            2 => Op::HotTailEdit,
            3 => Op::HotEditOldMtime,
            // put a deleted / modified tracked file back (the tree may be clean again, at the same HEAD)
            5 => Op::Restore(0),
            _ => Op::HotEmpty,
        };
        let mut v = vec![];
        for (k, commit) in bl {
            v.push(Step::Repo(touch(k)));
            if commit {
                v.push(Step::Repo(Op::CommitAll));
            }
            v.push(Step::UpdatePending);
        }
        for k in fin {
            v.push(Step::Repo(touch(k)));
        }
        v
    });
    let random = (any::<u16>(), any::<bool>(), vec(crate::props::c02::repo_op(), 0..10), vec(step, 0..12));
    let hot = (any::<u16>(), any::<bool>(), vec(crate::props::c02::repo_op(), 0..3), vec(focused, 3..14));
    let blk = (any::<u16>(), any::<bool>(), vec(crate::props::c02::repo_op(), 0..3), blocks);
    let hot_big = prop_oneof![2 => Just(0u16), 1 => 1u16..=u16::MAX];
    (hot_big, prop_oneof![3 => random, 1 => hot, 2 => blk]).prop_map(|(hot_big, (hot, ignore_out, prefix, steps))| Case {
        hot_big,
        hot,
        ignore_out,
        prefix,
        steps,
    })
}

fn analyze_targets(h: &mut Hist) -> Result<Vec<String>, CheckError> {
    let o = h.env.mr(&["analyze"]);
    let Some(v) = o.json() else {
        return viol_obs("c07.analyze.failed", "analyze failed".into(), o.brief());
    };
    let p = c01::parse_analyze(&v).map_err(|e| Violation::new("c07.output", e))?;
    if !p.checkpointed {
        return viol("c07.checkpointed", "checkpoint exists but analyze says checkpointed=false".into());
    }
    Ok(p.targets)
}

pub fn check(case: &Case, w: usize) -> CheckResult {
    let cfg = hist::config();
    let mut h = match Hist::new(w, &cfg, case.ignore_out) {
        Ok(h) => h,
        Err(e) => return inconclusive(e),
    };
    h.hot = hist::HOT[pick(case.hot, hist::HOT.len())].to_string();
    if case.hot_big != 0 {
        // the hot file starts out large (sizes around the 64 KiB / 2 MiB buffer boundaries)
        let size = hist::BIG_SIZES[pick(case.hot_big, hist::BIG_SIZES.len())];
        let mut c = Vec::with_capacity(size);
        let mut x = case.hot_big as u64 | 1;
        while c.len() < size {
            x ^= x << 13;
            x ^= x >> 7;
            x ^= x << 17;
            c.extend_from_slice(&x.to_le_bytes());
        }
        c.truncate(size);
        let hp = h.hot.clone();
        h.env.write_file(&hp, &c);
    }
    // one command for every target, committed with the initial state
    let mut beh = BTreeMap::new();
    for t in &cfg.targets {
        beh.insert(("c0".to_string(), t.path.clone()), Behavior::default());
    }
    bb::install_simple(&h.env, &cfg, &beh);
    h.scan_worktree();
    if let Err(e) = h.commit_all() {
        return inconclusive(e);
    }
    for op in &case.prefix {
        if let Err(e) = h.apply(op) {
            return inconclusive(format!("prefix op {:?} failed: {}", op, e));
        }
    }
    let mut steps = vec![Step::UpdatePending];
    steps.extend(case.steps.iter().cloned());

    let mut cp_commit = 0usize;
    let mut pending: BTreeMap<String, String> = BTreeMap::new();
    let mut pending_at_update: BTreeSet<String> = BTreeSet::new();
    let mut touched_pending = false;
    let mut had_pending = false;
    let mut later_edits = 0;
    let mut updates = 0;
    for (si, st) in steps.iter().enumerate() {
        match st {
            Step::UpdatePending => {
                h.sync_out();
                // model of what the update must record: every path that differs from HEAD
                let dirty = h.expected_changes(h.head(), None, &BTreeMap::new());
                let o = h.env.mr(&["checkpoint", "update", "-p"]);
                if !o.ok() {
                    return viol_obs("c07.update.failed", "checkpoint update -p failed".into(), o.brief());
                }
                h.sync_out();
                cp_commit = h.head();
                pending.clear();
                for p in &dirty {
                    // the checkpoint file itself changes by being written
                    let sum = match h.work.get(p) {
                        Some(c) => bb::sha256_hex(c),
                        None => String::new(),
                    };
                    pending.insert(p.clone(), sum);
                }
                if !case.ignore_out {
                    // files monorail rewrites during the update cannot keep their recorded checksum
                    pending.retain(|p, _| !p.starts_with("monorail-out/"));
                }
                pending_at_update = dirty.clone();
                had_pending |= !dirty.is_empty();
                updates += 1;
                // fix-point: nothing is changed
                let ts = analyze_targets(&mut h)?;
                if !ts.is_empty() {
                    return viol_obs(
                        "c07.not.clean.after.update",
                        format!("step {}: right after `checkpoint update -p` analyze still reports {:?}", si, ts),
                        json!({"history": h.log, "dirty_at_update": dirty}),
                    );
                }
                h.env.clear_traces();
                let r = h.env.mr(&["run", "-c", "c0"]);
                let Some(doc) = r.json() else {
                    return viol_obs("c07.run.failed", "run failed right after the update".into(), r.brief());
                };
                let run = bb::parse_run(&doc).map_err(|e| Violation::new("c07.output", e))?;
                let listed: usize = run.results.iter().map(|r| r.1.iter().map(|g| g.len()).sum::<usize>()).sum();
                let started = h.env.traces().len();
                if listed != 0 || started != 0 {
                    return viol_obs(
                        "c07.run.not.empty.after.update",
                        format!("step {}: right after `checkpoint update -p` run lists {} targets and started {} executables", si, listed, started),
                        json!({"history": h.log}),
                    );
                }
                h.sync_out();
            }
            Step::Repo(op) => {
                let before: BTreeSet<String> = h.work.keys().cloned().collect();
                let label = match h.apply(op) {
                    Ok(l) => l,
                    Err(e) => return inconclusive(format!("op {:?} failed: {}", op, e)),
                };
                if label == "noop" {
                    continue;
                }
                let after: BTreeSet<String> = h.work.keys().cloned().collect();
                if matches!(op, Op::Create(..) | Op::Edit(..) | Op::Delete(..) | Op::Recreate(..) | Op::Move(..)) {
                    later_edits += 1;
                    for p in before.symmetric_difference(&after) {
                        if pending_at_update.contains(p) {
                            touched_pending = true;
                        }
                    }
                    {
                        if let Some(p) = label.strip_prefix("edit ") {
                            let p = p.trim_matches('"');
                            if pending_at_update.contains(p) {
                                touched_pending = true;
                            }
                        }
                    }
                }
                h.sync_out();
                let mut want_paths = h.expected_changes(cp_commit, None, &pending);
                if !case.ignore_out {
                    // out-dir files are outside every target; whether they are listed does not matter here
                    want_paths.retain(|p| !p.starts_with("monorail-out/"));
                }
                let (must, may) = model::affected_many(&cfg, want_paths.iter());
                let ts: BTreeSet<String> = analyze_targets(&mut h)?.into_iter().collect();
                if !(must.is_subset(&ts) && ts.is_subset(&may)) {
                    let missing: Vec<_> = must.difference(&ts).collect();
                    let extra: Vec<_> = ts.difference(&may).collect();
                    return viol_obs(
                        if !missing.is_empty() { "c07.not.reflagged" } else { "c07.flagged.too.much" },
                        format!(
                            "step {} ({}): analyze reports {:?}; missing {:?}, unexpected {:?}",
                            si, label, ts, missing, extra
                        ),
                        json!({"history": h.log, "changed_paths": want_paths, "pending_model": pending}),
                    );
                }
            }
        }
    }
    Ok(CaseInfo::new(had_pending && touched_pending)
        .class_if(had_pending, "dirty-at-update")
        .class_if(touched_pending, "later-edit-touches-pending-path")
        .class_if(updates > 1, "repeated-update")
        .class_if(h.moved, "move")
        .class_if(h.deleted, "delete")
        .class_if(h.odd_name, "odd-name")
        .class_if(h.big || case.hot_big != 0, "big-file")
        .class_if(h.tail_edit, "tail-edit")
        .class_if(h.old_mtime, "edit-with-old-mtime")
        .class_if(h.empty_file, "empty-file")
        .class_if(h.copied, "content-copied-to-another-path")
        .class_if(later_edits > 0, "later-edits")
        .inv(h.env.invocations))
}

pub fn run(ctx: &mut Ctx) {
    ctx.rule = "stateful: a history prefix of up to 10 repository operations (create, edit, delete, move, stage, commit, ignored files; names with spaces and non-ASCII) -> `checkpoint update -p` \
-> up to 12 later steps (create, edit to fresh content, delete, re-create a deleted path, move, stage, commit, `update -p` again). oracle: right after every update `analyze` reports no target and \
`run` lists and starts nothing; after every later operation analyze.targets == affected(paths that differ from the checkpoint commit and from their checksum at update time), where the \
pending model is computed by the harness (not read back). non-trivial = the state at update time was dirty and a later edit touches a path that was pending/deleted then; distinct by SHA-256"
        .to_string();
    ctx.assumptions = vec![
        "files monorail itself writes below a non-ignored monorail-out are not judged (outside every target)".into(),
        "edits always produce content the file never had".into(),
    ];
    let n = ctx.n(300, 6000);
    ctx.drive("history", strategy, n, check);
}

pub fn replay(ctx: &Ctx, label: &str, case: Value) -> Result<(), String> {
    let c: Case = serde_json::from_value(case).map_err(|e| e.to_string())?;
    let r = check(&c, 0);
    ctx.replay_one(label, &c, r);
    Ok(())
}
