//! C14 - mutating invocations on one repository are mutually exclusive.

use crate::bb::{self, Behavior, Env};
use crate::model::{ConfigSpec, TargetSpec};
use crate::runner::*;
use proptest::collection::vec;
use proptest::prelude::*;
use serde::{Deserialize, Serialize};
use serde_json::{json, Value};
use std::collections::BTreeMap;
use std::time::{Duration, Instant};

#[derive(Debug, Clone, Copy, Serialize, Deserialize, PartialEq)]
pub enum Api {
    Run,
    Update,
    UpdatePending,
    Delete,
    OutDeleteAll,
}
impl Api {
    fn args(&self) -> Vec<&'static str> {
        match self {
            Api::Run => vec!["run", "-c", "c0", "-t", "t0", "t1"],
            Api::Update => vec!["checkpoint", "update"],
            Api::UpdatePending => vec!["checkpoint", "update", "-p"],
            Api::Delete => vec!["checkpoint", "delete"],
            Api::OutDeleteAll => vec!["out", "delete", "--all"],
        }
    }
}

#[derive(Debug, Clone, Copy, Serialize, Deserialize, PartialEq)]
pub enum HolderKind {
    /// `run` whose helper blocks on a gate
    GatedRun,
    /// any API held inside by a delay right after lock acquisition
    Delayed(Api),
}
#[derive(Debug, Clone, Copy, Serialize, Deserialize, PartialEq)]
pub enum Termination {
    Normal,
    Failure,
    Sigkill,
}

#[derive(Debug, Clone, Serialize, Deserialize)]
pub struct Case {
    /// phase A: free race (api, start offset ms)
    pub race: Vec<(Api, u64)>,
    pub holder: HolderKind,
    pub termination: Termination,
    /// phase B: contenders against the holder
    pub contenders: Vec<(Api, u64)>,
    /// phase B': contenders started shortly before the holder ends: (api, lead time ms)
    #[serde(default)]
    pub late: Vec<(Api, u64)>,
    pub after: Api,
    /// `server.lock.host`: 0 = default, 1 = "localhost", 2 = "127.0.0.1"; 3, 4 = an address
    /// that cannot be bound on this machine, 5 = a port number beyond 65535 (nobody can ever hold
    /// that lock: only phase A runs)
    #[serde(default)]
    pub lock_host: u8,
    /// the holder of phase B is started with -v / -vv / -vvv (0 = none): what it logs must not
    /// change what it holds
    #[serde(default)]
    pub holder_verbosity: u8,
}

fn api() -> impl Strategy<Value = Api> {
    prop_oneof![
        3 => Just(Api::Run),
        2 => Just(Api::Update),
        1 => Just(Api::UpdatePending),
        1 => Just(Api::Delete),
        1 => Just(Api::OutDeleteAll),
    ]
}

pub fn strategy() -> impl Strategy<Value = Case> {
    (
        vec((api(), 0u64..100), 2..=8),
        prop_oneof![2 => Just(HolderKind::GatedRun), 1 => api().prop_map(HolderKind::Delayed)],
        prop_oneof![Just(Termination::Normal), Just(Termination::Failure), Just(Termination::Sigkill)],
        vec((api(), 0u64..60), 1..=7),
        vec((api(), 110u64..400), 0..=2),
        api(),
        prop_oneof![8 => Just(0u8), 4 => Just(1u8), 4 => Just(2u8), 2 => Just(3u8), 2 => Just(4u8), 1 => Just(5u8)],
        prop_oneof![3 => Just(0u8), 1 => Just(1u8), 1 => Just(2u8), 1 => Just(3u8)],
    )
        .prop_map(|(race, holder, termination, contenders, late, after, lock_host, holder_verbosity)| Case {
            race,
            holder,
            termination,
            contenders,
            late,
            after,
            lock_host,
            holder_verbosity,
        })
}

#[derive(Debug, Clone)]
struct PointLine {
    pid: u32,
    name: String,
    ns: u128,
}

fn read_points(p: &std::path::Path) -> Vec<PointLine> {
    let mut v = vec![];
    for line in std::fs::read_to_string(p).unwrap_or_default().lines() {
        let f: Vec<&str> = line.split_whitespace().collect();
        if f.len() == 4 {
            v.push(PointLine {
                pid: f[0].parse().unwrap_or(0),
                name: f[1].to_string(),
                ns: f[3].parse().unwrap_or(0),
            });
        }
    }
    v
}

struct Proc {
    api: Api,
    pid: u32,
    spawn_ns: u128,
    exit_ns: u128,
    out: bb::MrOut,
    trace_dir: std::path::PathBuf,
}

fn is_lock_error(o: &bb::MrOut) -> bool {
    let e = o.error();
    let ty = e.as_ref().and_then(|e| e.get("type").and_then(|t| t.as_str())).unwrap_or("");
    let msg = e.as_ref().and_then(|e| e.get("message").and_then(|t| t.as_str())).unwrap_or("").to_lowercase();
    o.code != Some(0) && (ty == "server" || msg.contains("lock") || msg.contains("address") || msg.contains("bind"))
}

fn spawn_all(env: &mut Env, procs: &[(Api, u64)], log: &std::path::Path, tag: &str) -> Vec<Proc> {
    let t0 = Instant::now();
    let mut order: Vec<(usize, Api, u64)> = procs.iter().enumerate().map(|(i, (a, o))| (i, *a, *o)).collect();
    order.sort_by_key(|x| x.2);
    let mut running = vec![];
    for (i, a, off) in order {
        let wait = Duration::from_millis(off).saturating_sub(t0.elapsed());
        std::thread::sleep(wait);
        let trace_dir = env.case_dir.join(format!("trace-{}-{}", tag, i));
        let _ = std::fs::create_dir_all(&trace_dir);
        let spawn_ns = bb::monotonic_ns();
        let r = env.mr_spawn(
            &a.args(),
            &[("MRV_POINT_LOG", log.display().to_string()), ("MRV_TRACE", trace_dir.display().to_string())],
        );
        running.push((a, spawn_ns, r, trace_dir));
    }
    let mut done = vec![];
    for (a, spawn_ns, r, trace_dir) in running {
        let pid = r.pid;
        let out = r.wait(Duration::from_secs(120));
        let exit_ns = bb::monotonic_ns();
        done.push(Proc {
            api: a,
            pid,
            spawn_ns,
            exit_ns,
            out,
            trace_dir,
        });
    }
    done
}

/// Executables an invocation started, as recorded in its own trace directory: command
/// executables (helper start records) and `git` (records of the wrapper below).
fn helper_starts(dir: &std::path::Path) -> usize {
    std::fs::read_dir(dir)
        .map(|rd| {
            rd.flatten()
                .filter(|e| {
                    let n = e.file_name().to_string_lossy().to_string();
                    n.ends_with(".start.json") || n.starts_with("git-") || n.starts_with("exe-")
                })
                .count()
        })
        .unwrap_or(0)
}

/// `git` on the PATH of every invocation of this case is a wrapper that leaves a record in the
/// invocation's trace directory and then runs the real git.
fn install_git_wrapper(env: &mut Env) {
    let real = ["/usr/bin/git", "/usr/local/bin/git", "/bin/git"].iter().find(|p| std::path::Path::new(p).exists()).copied();
    let Some(real) = real else { return };
    let bin = env.case_dir.join("bin");
    let _ = std::fs::create_dir_all(&bin);
    let script = format!("#!/bin/sh\nif [ -n \"$MRV_TRACE\" ]; then echo \"$*\" > \"$MRV_TRACE/git-$$.log\" 2>/dev/null; fi\nexec {} \"$@\"\n", real);
    let p = bin.join("git");
    if std::fs::write(&p, script).is_ok() {
        use std::os::unix::fs::PermissionsExt;
        let _ = std::fs::set_permissions(&p, std::fs::Permissions::from_mode(0o755));
        // the same for the tools an invocation might consult about a busy address or about
        // processes (whether or not they are installed here: a missing one records and exits 127)
        let path = std::env::var("PATH").unwrap_or_else(|_| "/usr/bin:/bin".into());
        for tool in ["lsof", "ss", "netstat", "fuser", "ps", "pgrep", "pidof", "lslocks", "flock", "nc", "hostname", "uname", "id", "whoami", "stat", "ls", "cat", "env"] {
            let real = path.split(':').map(|d| std::path::Path::new(d).join(tool)).find(|p| p.exists());
            let tail = match real {
                Some(r) => format!("exec {} \"$@\"", r.display()),
                None => "exit 127".to_string(),
            };
            let script = format!("#!/bin/sh\nif [ -n \"$MRV_TRACE\" ]; then echo \"$*\" > \"$MRV_TRACE/exe-{}-$$.log\" 2>/dev/null; fi\n{}\n", tool, tail);
            let tp = bin.join(tool);
            if std::fs::write(&tp, script).is_ok() {
                let _ = std::fs::set_permissions(&tp, std::fs::Permissions::from_mode(0o755));
            }
        }
        env.extra_env.push(("PATH".into(), format!("{}:{}", bin.display(), path)));
    }
}

/// (i): the conservative intervals [lock.acquired, lock.release] of different
/// processes never overlap. `kill_ns` closes the interval of a killed holder.
/// Scheduling latency of this machine right now, measured by a thread of the harness that sleeps
/// 2 ms at a time and records by how much it overslept at worst. Oracle (iv) needs a bound on
/// the time a process can lose the CPU between two adjacent statements.
pub struct JitterProbe {
    stop: std::sync::Arc<std::sync::atomic::AtomicBool>,
    max_ns: std::sync::Arc<std::sync::atomic::AtomicU64>,
    handle: Option<std::thread::JoinHandle<()>>,
}
impl JitterProbe {
    pub fn start() -> Self {
        use std::sync::atomic::Ordering;
        let stop = std::sync::Arc::new(std::sync::atomic::AtomicBool::new(false));
        let max_ns = std::sync::Arc::new(std::sync::atomic::AtomicU64::new(0));
        let (s2, m2) = (stop.clone(), max_ns.clone());
        let handle = std::thread::spawn(move || {
            while !s2.load(Ordering::SeqCst) {
                let t = Instant::now();
                std::thread::sleep(Duration::from_millis(2));
                let over = t.elapsed().saturating_sub(Duration::from_millis(2)).as_nanos() as u64;
                m2.fetch_max(over, Ordering::SeqCst);
            }
        });
        JitterProbe { stop, max_ns, handle: Some(handle) }
    }
    pub fn max_ns(&self) -> u128 {
        self.max_ns.load(std::sync::atomic::Ordering::SeqCst) as u128
    }
}
impl Drop for JitterProbe {
    fn drop(&mut self) {
        self.stop.store(true, std::sync::atomic::Ordering::SeqCst);
        if let Some(h) = self.handle.take() {
            let _ = h.join();
        }
    }
}

fn check_exclusion(points: &[PointLine], killed: Option<(u32, u128)>, jitter_ns: u128) -> Result<usize, CheckError> {
    let mut iv: Vec<(u32, u128, u128)> = vec![];
    let mut open: BTreeMap<u32, u128> = BTreeMap::new();
    for p in points {
        if p.name == "lock.acquired" {
            open.insert(p.pid, p.ns);
        } else if p.name == "lock.release" {
            if let Some(a) = open.remove(&p.pid) {
                iv.push((p.pid, a, p.ns));
            }
        }
    }
    for (pid, a) in open {
        match killed {
            Some((kp, kns)) if kp == pid => iv.push((pid, a, kns.max(a))),
            _ => {
                // acquired but never released and not killed by us: the process died on its own; skip
            }
        }
    }
    iv.sort_by_key(|x| x.1);
    // (iv) whoever tried to acquire while another process demonstrably held the lock (the
    // attempt is logged before the bind, the holder's acquisition after its bind, its release
    // before the guard drops; a margin for the time between the attempt line and the bind system
    // call: 100 ms plus ten times the worst scheduling delay the harness itself saw during this
    // case) must never acquire
    let margin_ns: u128 = 100_000_000 + 10 * jitter_ns;
    for p in points.iter().filter(|p| p.name == "lock.attempt") {
        for h in iv.iter().filter(|h| h.0 != p.pid) {
            if h.1 < p.ns && p.ns + margin_ns < h.2 {
                if let Some(acq) = points.iter().find(|q| q.pid == p.pid && q.name == "lock.acquired") {
                    return viol_obs(
                        "c14.acquired.after.busy.attempt",
                        format!(
                            "process {} tried to acquire while process {} held the lock (and kept holding it for {} ms more) but acquired the lock {} ms later instead of failing with a lock error",
                            p.pid,
                            h.0,
                            (h.2 - p.ns) / 1_000_000,
                            (acq.ns.saturating_sub(p.ns)) / 1_000_000
                        ),
                        json!({"attempt_ns": p.ns.to_string(), "holder": {"pid": h.0, "acquired": h.1.to_string(), "released": h.2.to_string()}}),
                    );
                }
            }
        }
    }
    for w in iv.windows(2) {
        if w[1].1 < w[0].2 {
            return viol_obs(
                "c14.overlap",
                format!(
                    "process {} acquired the lock {} ns before process {} released it",
                    w[1].0,
                    w[0].2 - w[1].1,
                    w[0].0
                ),
                json!({"intervals": iv.iter().map(|x| json!({"pid": x.0, "acquired": x.1.to_string(), "released": x.2.to_string()})).collect::<Vec<_>>()}),
            );
        }
    }
    Ok(iv.len())
}

/// Oracle (iv) rests on a time margin (the attempt line is written before the bind system
/// call; on a machine that is oversubscribed several times over, a process can lose the CPU
/// between the two for longer than a fixed margin). The margin therefore grows with the
/// scheduling delay measured during the case, and a violation of (iv) alone is only reported
/// when the same case shows it twice in a row; the other oracles need no margin.
pub fn check(case: &Case, w: usize) -> CheckResult {
    match check_once(case, w) {
        Err(CheckError::Violation(v)) if v.signature == "c14.acquired.after.busy.attempt" => match check_once(case, w) {
            Err(CheckError::Violation(v2)) if v2.signature == v.signature => Err(CheckError::Violation(v2)),
            Err(e) => Err(e),
            Ok(info) => Ok(info.class("busy-attempt-seen-once-not-confirmed")),
        },
        r => r,
    }
}

fn check_once(case: &Case, w: usize) -> CheckResult {
    let jitter = JitterProbe::start();
    let cfg = ConfigSpec {
        targets: vec![TargetSpec::new("t0"), TargetSpec::new("t1")],
        lock_host: match case.lock_host {
            1 => Some("localhost".into()),
            2 => Some("127.0.0.1".into()),
            3 => Some("192.0.2.1".into()),
            4 => Some("198.51.100.9".into()),
            _ => None,
        },
        // 5: a port number beyond 65535
        lock_port_plus: if case.lock_host == 5 { Some(65536) } else { None },
        ..Default::default()
    };
    let mut env = Env::new(w);
    env.install_config(&cfg);
    install_git_wrapper(&mut env);
    let mut beh = BTreeMap::new();
    beh.insert(("c0".to_string(), "t0".to_string()), Behavior { sleep_ms: 5, ..Default::default() });
    beh.insert(("c0".to_string(), "t1".to_string()), Behavior { sleep_ms: 5, ..Default::default() });
    bb::install_simple(&env, &cfg, &beh);
    if let Err(e) = env.git_init() {
        return inconclusive(e);
    }
    env.write_file(".gitignore", b"monorail-out/\n");
    if let Err(e) = env.git_ok(&["add", "-A"]).and_then(|_| env.git_ok(&["commit", "-q", "-m", "init"])) {
        return inconclusive(e);
    }
    let log = env.case_dir.join("points.log");

    // ---- phase A: free race
    let procs = spawn_all(&mut env, &case.race, &log, "race");
    let points = read_points(&log);
    let holders_a = check_exclusion(&points, None, jitter.max_ns())?;
    for p in &procs {
        let acquired = points.iter().any(|l| l.pid == p.pid && l.name == "lock.acquired");
        if !acquired {
            if !is_lock_error(&p.out) {
                return viol_obs(
                    "c14.loser.outcome",
                    format!("{:?} (pid {}) never held the lock but did not end with a lock error", p.api, p.pid),
                    p.out.brief(),
                );
            }
            if helper_starts(&p.trace_dir) != 0 {
                return viol("c14.loser.started", format!("{:?} (pid {}) never held the lock but started an executable", p.api, p.pid));
            }
        }
    }

    if case.lock_host >= 3 {
        // the lock address cannot be bound: nobody got past acquisition, so nothing was recorded
        let written: Vec<String> = bb::snapshot_dir(&env.path("monorail-out")).into_iter().filter(|(k, _)| !k.ends_with('/')).map(|(k, _)| k).collect();
        if holders_a != 0 || !written.is_empty() {
            return viol(
                "c14.unbindable.acted",
                format!("no invocation can hold a lock at an address that cannot be bound, but {} acquired and these files were written: {:?}", holders_a, written),
            );
        }
        return Ok(CaseInfo::new(true).class("lock-address-cannot-be-bound").class(&format!("race={}", case.race.len())).inv(env.invocations));
    }
    // ---- phase B: a holder that stays inside
    let _ = std::fs::remove_file(&log);
    let holder_trace = env.case_dir.join("trace-holder");
    let _ = std::fs::create_dir_all(&holder_trace);
    let (holder_api, delay_ms) = match case.holder {
        HolderKind::GatedRun => (Api::Run, 0u64),
        HolderKind::Delayed(a) => (a, 1500u64),
    };
    if case.holder == HolderKind::GatedRun {
        let mut beh2 = beh.clone();
        beh2.insert(
            ("c0".to_string(), "t0".to_string()),
            Behavior {
                gate: Some("gate-open".into()),
                exit: if case.termination == Termination::Failure { 3 } else { 0 },
                ..Default::default()
            },
        );
        bb::install_simple(&env, &cfg, &beh2);
    }
    let mut henv: Vec<(&str, String)> = vec![
        ("MRV_POINT_LOG", log.display().to_string()),
        ("MRV_TRACE", holder_trace.display().to_string()),
    ];
    if delay_ms > 0 {
        // the holder is paused inside its critical section, right after it got the lock guard
        henv.push(("MRV_POINTS", format!("lock.held=delay:{}", delay_ms)));
    }
    let mut hargs: Vec<&str> = match case.holder_verbosity {
        1 => vec!["-v"],
        2 => vec!["-vv"],
        3 => vec!["-vvv"],
        _ => vec![],
    };
    hargs.extend(holder_api.args());
    let mut holder = env.mr_spawn(&hargs, &henv);
    let holder_pid = holder.pid;
    // wait until the holder is provably inside
    let t0 = Instant::now();
    let inside_ns = loop {
        if t0.elapsed() > Duration::from_secs(30) {
            holder.kill_group();
            return inconclusive("holder did not get inside within 30 s".into());
        }
        let acquired = read_points(&log).iter().find(|l| l.pid == holder_pid && l.name == "lock.acquired").map(|l| l.ns);
        let ready = match case.holder {
            HolderKind::GatedRun => acquired.is_some() && helper_starts(&holder_trace) >= 1,
            HolderKind::Delayed(_) => read_points(&log).iter().any(|l| l.pid == holder_pid && l.name == "lock.held"),
        };
        if ready {
            break bb::monotonic_ns();
        }
        if holder.try_done() {
            let o = holder.wait(Duration::from_secs(5));
            return inconclusive(format!("holder {:?} ended before it could be observed inside: {}", case.holder, o.brief()));
        }
        std::thread::sleep(Duration::from_millis(1));
    };
    let out_dir = env.path("monorail-out");
    // let the holder's own writes (its sibling task finishing) settle before the snapshot
    let mut snap1 = bb::snapshot_dir(&out_dir);
    if case.holder == HolderKind::GatedRun {
        let tq = Instant::now();
        let mut stable = 0;
        while stable < 3 && tq.elapsed() < Duration::from_secs(5) {
            std::thread::sleep(Duration::from_millis(40));
            let s2 = bb::snapshot_dir(&out_dir);
            if s2 == snap1 {
                stable += 1;
            } else {
                stable = 0;
                snap1 = s2;
            }
        }
    }
    let inside_ns = inside_ns.max(bb::monotonic_ns());
    let contenders = spawn_all(&mut env, &case.contenders, &log, "cont");
    let snap2 = bb::snapshot_dir(&out_dir);
    let snap_ns = bb::monotonic_ns();
    // is the holder still provably inside?
    let holder_still_inside = match case.holder {
        HolderKind::GatedRun => !holder.try_done(),
        HolderKind::Delayed(_) => {
            let acq = read_points(&log).iter().find(|l| l.pid == holder_pid && l.name == "lock.held").map(|l| l.ns).unwrap_or(0);
            snap_ns + 200_000_000 < acq + (delay_ms as u128) * 1_000_000
        }
    };
    let mut overlapped = 0;
    if holder_still_inside {
        for c in &contenders {
            if c.spawn_ns < inside_ns {
                continue;
            }
            overlapped += 1;
            if !is_lock_error(&c.out) {
                holder.kill_group();
                return viol_obs(
                    "c14.contender.outcome",
                    format!("{:?} ran while {:?} held the lock but did not end with a lock error", c.api, holder_api),
                    c.out.brief(),
                );
            }
            if helper_starts(&c.trace_dir) != 0 {
                holder.kill_group();
                return viol("c14.contender.started", format!("{:?} ran while the lock was held but started an executable", c.api));
            }
        }
        // the holder's own slot (no result file yet) is written by the holder itself
        let completed = |snap: &BTreeMap<String, String>| -> BTreeMap<String, String> {
            snap.iter()
                .filter(|(k, _)| {
                    if let Some(rest) = k.strip_prefix("run/") {
                        let id = rest.split('/').next().unwrap_or("");
                        !id.is_empty() && snap1.contains_key(&format!("run/{}/result.json.zst", id))
                    } else {
                        true
                    }
                })
                .map(|(k, v)| (k.clone(), v.clone()))
                .collect()
        };
        let (snap1, snap2) = (completed(&snap1), completed(&snap2));
        if snap1 != snap2 {
            holder.kill_group();
            let changed: Vec<&String> = snap1
                .keys()
                .chain(snap2.keys())
                .filter(|k| snap1.get(*k) != snap2.get(*k))
                .collect();
            return viol_obs(
                "c14.contender.modified",
                "checkpoint / results / logs changed while the lock was held by a waiting holder".into(),
                json!({"changed": changed}),
            );
        }
    }
    // ---- late contenders: started shortly before the holder ends
    let mut late_running = vec![];
    if holder_still_inside && case.holder == HolderKind::GatedRun {
        let max_lead = case.late.iter().map(|l| l.1).max().unwrap_or(0);
        let t_late = Instant::now();
        let mut order: Vec<(usize, Api, u64)> = case.late.iter().enumerate().map(|(i, (a, l))| (i, *a, *l)).collect();
        order.sort_by_key(|x| std::cmp::Reverse(x.2));
        for (i, a, lead) in order {
            let wait = Duration::from_millis(max_lead - lead).saturating_sub(t_late.elapsed());
            std::thread::sleep(wait);
            let trace_dir = env.case_dir.join(format!("trace-late-{}", i));
            let _ = std::fs::create_dir_all(&trace_dir);
            let r = env.mr_spawn(
                &a.args(),
                &[("MRV_POINT_LOG", log.display().to_string()), ("MRV_TRACE", trace_dir.display().to_string())],
            );
            late_running.push(r);
        }
        std::thread::sleep(Duration::from_millis(max_lead).saturating_sub(t_late.elapsed()));
    }
    // ---- end of the holder
    let mut killed = None;
    match case.termination {
        Termination::Sigkill => {
            let kns = bb::monotonic_ns();
            holder.kill();
            killed = Some((holder_pid, kns));
            let _ = holder.wait(Duration::from_secs(30));
        }
        _ => {
            env.open_gate("gate-open");
            let o = holder.wait(Duration::from_secs(60));
            if o.timed_out {
                return inconclusive("holder did not finish".into());
            }
        }
    }
    env.open_gate("gate-open"); // a later `run` must not block on the holder's gate
    let had_late = !late_running.is_empty();
    for r in late_running {
        let _ = r.wait(Duration::from_secs(60));
    }
    env.kill_groups();
    // (iii) the next invocation acquires the lock at once
    let fresh_trace = env.case_dir.join("trace-after");
    let _ = std::fs::create_dir_all(&fresh_trace);
    let o = env.mr_env(
        &case.after.args(),
        &[("MRV_POINT_LOG", log.display().to_string()), ("MRV_TRACE", fresh_trace.display().to_string())],
        Duration::from_secs(60),
    );
    if is_lock_error(&o) || o.error_type() == "server" {
        return viol_obs(
            "c14.reacquire",
            format!("after the holder ended ({:?}) the next invocation {:?} could not acquire the lock at once", case.termination, case.after),
            o.brief(),
        );
    }
    let points = read_points(&log);
    let holders_b = check_exclusion(&points, killed, jitter.max_ns())?;
    Ok(CaseInfo::new(overlapped >= 1)
        .class(&format!("holder={:?}", case.holder).replace("Delayed(", "delayed-").replace(')', ""))
        .class_if(case.holder_verbosity > 0, &format!("holder-verbosity={}", case.holder_verbosity))
        .class(&format!("termination={:?}", case.termination))
        .class(&format!("contenders={}", case.contenders.len().min(4)))
        .class_if(!holder_still_inside, "holder-left-early(not judged)")
        .class_if(holders_a >= 2, "race-with>=2-winners")
        .class_if(holders_b >= 2, "phaseB-with>=2-holders")
        .class_if(had_late, "late-contenders")
        .class(match case.lock_host {
            1 => "lock-host=localhost",
            2 => "lock-host=127.0.0.1",
            _ => "lock-host=default",
        })
        .inv(env.invocations))
}

/// Contenders that are descendants of the holder: a command executable of a lock-holding `run`
/// starts the four APIs itself (a CI step that ends with `monorail checkpoint update`, say).
#[derive(Debug, Clone, Serialize, Deserialize)]
pub struct NestedCase {
    /// order in which the four APIs are tried
    pub order: Vec<u8>,
    pub host: u8,
}

pub fn nested_strategy() -> impl Strategy<Value = NestedCase> {
    (Just(vec![0u8, 1, 2, 3]).prop_shuffle(), 0u8..3).prop_map(|(order, host)| NestedCase { order, host })
}

pub fn check_nested(case: &NestedCase, w: usize) -> CheckResult {
    let mut cfg = ConfigSpec {
        targets: vec![TargetSpec::new("t0"), TargetSpec::new("t1")],
        ..Default::default()
    };
    cfg.lock_host = match case.host {
        1 => Some("localhost".into()),
        2 => Some("127.0.0.1".into()),
        _ => None,
    };
    let mut env = Env::new(w);
    env.install_config(&cfg);
    let apis: [Vec<String>; 4] = [
        vec!["checkpoint".into(), "update".into()],
        vec!["checkpoint".into(), "delete".into()],
        vec!["out".into(), "delete".into(), "--all".into()],
        vec!["run".into(), "-c".into(), "c0".into(), "-t".into(), "t1".into()],
    ];
    let nested: Vec<Vec<String>> = case.order.iter().map(|&k| apis[k as usize % 4].clone()).collect();
    let mut beh = BTreeMap::new();
    beh.insert(("c0".to_string(), "t0".to_string()), Behavior { nested: nested.clone(), ..Default::default() });
    beh.insert(("c0".to_string(), "t1".to_string()), Behavior::default());
    bb::install_simple(&env, &cfg, &beh);
    if let Err(e) = bb::commit_all_and_checkpoint(&mut env) {
        return inconclusive(e);
    }
    let before = env.mr(&["checkpoint", "show"]);
    let holder = env.mr(&["run", "-c", "c0", "-t", "t0"]);
    if !holder.ok() {
        return inconclusive(format!("the holder run did not succeed: {}", holder.brief()));
    }
    let mut seen = 0;
    if let Ok(rd) = std::fs::read_dir(&env.trace) {
        for e in rd.flatten() {
            let name = e.file_name().to_string_lossy().to_string();
            if !name.starts_with("nested-") {
                continue;
            }
            let Ok(v) = serde_json::from_slice::<Value>(&std::fs::read(e.path()).unwrap_or_default()) else { continue };
            seen += 1;
            let code = v.get("code").and_then(|c| c.as_i64());
            let stderr = v.get("stderr").and_then(|s| s.as_str()).unwrap_or("");
            if code == Some(0) || !stderr.contains("Lock") {
                return viol_obs(
                    "c14.nested.not-refused",
                    format!("an invocation started by a command of the lock-holding run was not refused with a lock error: {}", v.get("args").map(|a| a.to_string()).unwrap_or_default()),
                    v.clone(),
                );
            }
        }
    }
    if seen != nested.len() {
        return inconclusive(format!("{} of {} nested invocations were recorded", seen, nested.len()));
    }
    let started_t1 = env.traces().iter().any(|t| bb::trace_key(&env, t).1 == "t1");
    if started_t1 {
        return viol("c14.nested.started", "a nested `run` started an executable while its ancestor held the lock".into());
    }
    let after = env.mr(&["checkpoint", "show"]);
    if before.json().map(|v| bb::strip_timestamp(&v)) != after.json().map(|v| bb::strip_timestamp(&v)) || before.code != after.code {
        return viol_obs("c14.nested.checkpoint", "the checkpoint changed although every nested invocation should have been refused".into(), after.brief());
    }
    Ok(CaseInfo::new(true).class("contenders-are-children-of-the-holder").inv(env.invocations))
}

/// Two invocations race for the lock while the harness stretches the first one's `listen(2)`
/// (strace delay injection): whatever happens between the individual system calls of lock
/// acquisition, at most one of the two may act.
#[derive(Debug, Clone, Serialize, Deserialize)]
pub struct ListenDelayCase {
    pub first: Api,
    pub second: Api,
    /// delay injected on entry to listen(2) in the first invocation, ms
    pub delay_ms: u64,
    /// start of the second invocation after the first, ms
    pub second_after_ms: u64,
}

pub fn listen_delay_cases(thorough: bool) -> Vec<ListenDelayCase> {
    let mut v = vec![
        ListenDelayCase { first: Api::Run, second: Api::Run, delay_ms: 1500, second_after_ms: 500 },
        ListenDelayCase { first: Api::Update, second: Api::Run, delay_ms: 1500, second_after_ms: 600 },
    ];
    if thorough {
        v.push(ListenDelayCase { first: Api::Run, second: Api::Delete, delay_ms: 2500, second_after_ms: 800 });
        v.push(ListenDelayCase { first: Api::OutDeleteAll, second: Api::Run, delay_ms: 2000, second_after_ms: 400 });
        v.push(ListenDelayCase { first: Api::Run, second: Api::UpdatePending, delay_ms: 3000, second_after_ms: 1200 });
    }
    v
}

pub fn check_listen_delay(case: &ListenDelayCase, w: usize) -> CheckResult {
    if !std::path::Path::new("/usr/bin/strace").exists() {
        return inconclusive("strace is not installed".into());
    }
    let cfg = ConfigSpec { targets: vec![TargetSpec::new("t0"), TargetSpec::new("t1")], ..Default::default() };
    let mut env = Env::new(w);
    env.install_config(&cfg);
    let mut beh = BTreeMap::new();
    beh.insert(("c0".to_string(), "t0".to_string()), Behavior { sleep_ms: 700, ..Default::default() });
    beh.insert(("c0".to_string(), "t1".to_string()), Behavior { sleep_ms: 700, ..Default::default() });
    bb::install_simple(&env, &cfg, &beh);
    if let Err(e) = bb::commit_all_and_checkpoint(&mut env) {
        return inconclusive(e);
    }
    let log = env.case_dir.join("points.log");
    let inject = format!("inject=listen:delay_enter={}", case.delay_ms * 1000);
    let trace_a = env.case_dir.join("trace-a");
    let trace_b = env.case_dir.join("trace-b");
    let _ = std::fs::create_dir_all(&trace_a);
    let _ = std::fs::create_dir_all(&trace_b);
    let a = env.mr_spawn_under(
        &["/usr/bin/strace", "-f", "-o", "/dev/null", "-e", "trace=listen", "-e", &inject],
        &case.first.args(),
        &[("MRV_POINT_LOG", log.display().to_string()), ("MRV_TRACE", trace_a.display().to_string())],
    );
    std::thread::sleep(Duration::from_millis(case.second_after_ms));
    let b = env.mr_spawn(&case.second.args(), &[("MRV_POINT_LOG", log.display().to_string()), ("MRV_TRACE", trace_b.display().to_string())]);
    let ob = b.wait(Duration::from_secs(60));
    let oa = a.wait(Duration::from_secs(60));
    if oa.timed_out || ob.timed_out {
        return inconclusive("an invocation did not end within 60 s".into());
    }
    // the delayed invocation was inside its acquisition while the other one went through it:
    // one lock, so at most one of them may have got it
    let points = read_points(&log);
    let holders = check_exclusion(&points, None, 0)?;
    let acted_a = helper_starts(&trace_a) > 0;
    let acted_b = helper_starts(&trace_b) > 0;
    let both_ok = oa.code == Some(0) && ob.code == Some(0);
    let first_attempt = points.iter().filter(|p| p.name == "lock.attempt").map(|p| p.ns).min();
    let last_acquired = points.iter().filter(|p| p.name == "lock.acquired").map(|p| p.ns).max();
    let overlapping = matches!((first_attempt, last_acquired), (Some(x), Some(y)) if y > x);
    if both_ok && overlapping {
        // both report success: then the second must have acquired after the first released
        let mut acq: Vec<(u32, u128)> = points.iter().filter(|p| p.name == "lock.acquired").map(|p| (p.pid, p.ns)).collect();
        let rel: Vec<(u32, u128)> = points.iter().filter(|p| p.name == "lock.release").map(|p| (p.pid, p.ns)).collect();
        acq.sort_by_key(|x| x.1);
        if acq.len() == 2 {
            let first_release = rel.iter().find(|r| r.0 == acq[0].0).map(|r| r.1);
            if first_release.map(|r| r > acq[1].1).unwrap_or(true) {
                return viol_obs(
                    "c14.listen-delay.both-inside",
                    format!("{:?} (listen(2) delayed by {} ms) and {:?} (started {} ms later) were both past lock acquisition at the same time", case.first, case.delay_ms, case.second, case.second_after_ms),
                    json!({"first": oa.brief(), "second": ob.brief()}),
                );
            }
        }
    }
    for (o, acted, api) in [(&oa, acted_a, case.first), (&ob, acted_b, case.second)] {
        if o.code != Some(0) && acted && api != Api::Run {
            return viol("c14.loser.started", format!("{:?} ended with an error but started an executable", api));
        }
    }
    Ok(CaseInfo::new(true).class("listen(2)-of-the-first-contender-delayed").class(&format!("holders={}", holders)).inv(env.invocations))
}

pub fn run(ctx: &mut Ctx) {
    ctx.hang_limit = Duration::from_secs(400);
    ctx.shrink_budget = Duration::from_secs(30);
    ctx.rule = "phase A: 2-8 invocations drawn from {run, checkpoint update, update -p, checkpoint delete, out delete --all} sharing one lock address (host default / `localhost` / `127.0.0.1`), started with offsets 0-100 ms. \
phase B: a holder kept inside its critical section (a `run` whose helper blocks on a gate, or any of the APIs delayed at the `lock.held` point right after it obtained its lock guard), 1-7 contenders started while it is inside, \
0-2 late contenders started 110-400 ms before the holder ends, holder termination by normal exit, failing run or SIGKILL, then one more invocation. oracle: (i) from the point log, [lock.acquired, lock.release] intervals of different processes never overlap (a killed \
holder's interval ends at a time stamp taken before the kill); (ii) a process that never acquired, and every contender that ran while the holder was provably inside, ends non-zero with a lock error, \
starts no executable (own trace directory: command executables and, through a wrapper on PATH, git), and the out directory is byte-identical before/after the contenders; (iii) after the holder ended the next invocation does not get a lock error; (iv) a process whose bind attempt (lock.attempt) fell inside another process's holding interval, with 100 ms plus ten times the scheduling delay measured by the harness during the case to spare before the release, never acquires (reported when the case shows it twice in a row). \
a seventh of the cases use a lock address that cannot be bound at all (192.0.2.1, 198.51.100.9, or a port number beyond 65535): only phase A runs, every invocation must end with a lock error, start nothing and write nothing. phase C: the four APIs started, in a generated order, by a command executable of the lock-holding run itself (same environment): each must be refused with a lock error, start nothing and leave the checkpoint alone. non-trivial = at least one contender overlapped the holder; distinct by SHA-256"
        .to_string();
    ctx.assumptions = vec![
        "lock.release is logged before the guard is dropped, so a correct lock cannot produce an overlap".into(),
        "contenders are judged only while the holder is provably still inside (gate closed / delay not elapsed, 200 ms margin)".into(),
    ];
    let n = ctx.n(120, 2500);
    ctx.drive("scenario", strategy, n, check);
    let n2 = ctx.n(12, 200);
    ctx.drive("nested", nested_strategy, n2, check_nested);
    ctx.drive_all(
        "listen-delay",
        listen_delay_cases(ctx.thorough()),
        "two invocations, the first with its listen(2) delayed by 1.5-3 s under strace, the second started 0.4-1.2 s after it",
        check_listen_delay,
    );
}

pub fn replay(ctx: &Ctx, label: &str, case: Value) -> Result<(), String> {
    if label.contains("listen-delay") {
        let c: ListenDelayCase = serde_json::from_value(case).map_err(|e| e.to_string())?;
        let r = check_listen_delay(&c, 0);
        ctx.replay_one(label, &c, r);
        return Ok(());
    }
    if label.contains("nested") {
        let c: NestedCase = serde_json::from_value(case).map_err(|e| e.to_string())?;
        let r = check_nested(&c, 0);
        ctx.replay_one(label, &c, r);
        return Ok(());
    }
    let c: Case = serde_json::from_value(case).map_err(|e| e.to_string())?;
    let r = check(&c, 0);
    ctx.replay_one(label, &c, r);
    Ok(())
}
