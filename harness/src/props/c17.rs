//! C17 - a generated config is usable iff source, output and lockfile are untouched.

use crate::bb::{self, Behavior, Env};
use crate::gen::{self, CycleMode};
use crate::model::ConfigSpec;
use crate::props::c18;
use crate::runner::*;
use proptest::collection::vec;
use proptest::prelude::*;
use serde::{Deserialize, Serialize};
use serde_json::{json, Value};
use std::collections::{BTreeMap, BTreeSet};

#[derive(Debug, Clone, Copy, Serialize, Deserialize, PartialEq)]
pub enum FileSel {
    Source,
    Generated,
    Lock,
}

#[derive(Debug, Clone, Serialize, Deserialize, PartialEq)]
pub enum Kind {
    Xor(u8),
    Truncate,
    Append(Vec<u8>),
    /// append n bytes that repeat the bytes `period` positions earlier (NUL where the file is shorter)
    AppendPeriodic(usize, usize),
    /// cut the file by n bytes (n small): a tail that may repeat earlier content
    TruncateTail(usize),
}

#[derive(Debug, Clone, Serialize, Deserialize, PartialEq)]
pub enum Offset {
    Abs(usize),
    /// fraction of the file length (x / 65536)
    Frac(u16),
    /// distance from a buffer boundary: (boundary, signed delta)
    Near(usize, i32),
    Last,
}

#[derive(Debug, Clone, Serialize, Deserialize, PartialEq)]
pub struct Tamper {
    pub file: FileSel,
    pub kind: Kind,
    pub offset: Offset,
    /// give the edited file its original modification time back (cp -p, rsync -t, restore from backup)
    #[serde(default)]
    pub keep_mtime: bool,
}

#[derive(Debug, Clone, Serialize, Deserialize)]
pub struct Case {
    pub config: ConfigSpec,
    pub tampers: Vec<Tamper>,
    /// 0: the source file is the JSON document itself; 1: the source is a script in another
    /// language and encoding (Latin-1 comments, an incomplete multi-byte sequence at its end)
    #[serde(default)]
    pub source_kind: u8,
    /// the generated configuration is called Monorail.dev.json (lockfile Monorail.dev.lock)
    #[serde(default)]
    pub dotted_name: bool,
    /// `generate` and every later invocation are made from the directory above the repository
    /// (`-f <abs>/repo/Monorail.json`, `source.path` = `repo/Monorail.src.json`, relative to that
    /// directory as `generate` reads it)
    #[serde(default)]
    pub outer_cwd: bool,
    /// the file named with -f is a symbolic link to `Monorail.gen.json` in the same directory;
    /// `generate` writes through it, the lockfile is named after the link
    #[serde(default)]
    pub symlinked_config: bool,
    /// after `generate` the whole repository directory is renamed (a checkout moved or cloned
    /// elsewhere): the three files stay byte-identical
    #[serde(default)]
    pub relocate: bool,
}

/// What the source file holds. `config generate` only reads the configuration from stdin; the
/// source file is checksummed as it is, whatever its language or encoding.
fn source_file_bytes(kind: u8, json: &[u8]) -> Vec<u8> {
    if kind == 0 {
        return json.to_vec();
    }
    let mut v = b"#!/usr/bin/env python3\n# -*- coding: latin-1 -*-\n# g\xe9n\xe9r\xe9 par l'\xe9quipe \xfc\xff\x80 na\xefve\nimport sys\nsys.stdout.write(r\"\"\"".to_vec();
    v.extend_from_slice(json);
    v.extend_from_slice(b"\"\"\")\n# fin \xe0 \xe2\x82");
    v
}

pub fn tamper() -> impl Strategy<Value = Tamper> {
    (
        prop_oneof![2 => Just(FileSel::Source), 4 => Just(FileSel::Generated), 2 => Just(FileSel::Lock)],
        prop_oneof![
            5 => (1u8..=255).prop_map(Kind::Xor),
            2 => Just(Kind::Truncate),
            2 => prop_oneof![Just(b" ".to_vec()), Just(b"\n".to_vec()), Just(b"x".to_vec()), Just(b"}".to_vec()), Just(b"\n\n   \n".to_vec()), Just(vec![0u8]), Just(vec![0u8; 7])].prop_map(Kind::Append),
            2 => (prop_oneof![Just(512usize), Just(4096), Just(8192), Just(16384), Just(65536)], 1usize..=3).prop_map(|(p, n)| Kind::AppendPeriodic(p, n)),
            1 => (1usize..=3).prop_map(Kind::TruncateTail),
        ],
        prop_oneof![
            4 => any::<u16>().prop_map(Offset::Frac),
            1 => Just(Offset::Abs(0)),
            1 => Just(Offset::Last),
            3 => (prop_oneof![Just(8192usize), Just(16384), Just(65536)], -3i32..=3).prop_map(|(b, d)| Offset::Near(b, d)),
        ],
    )
        .prop_map(|(file, kind, offset)| Tamper {
            file,
            kind,
            offset,
            keep_mtime: false,
        })
        .prop_flat_map(|t| (Just(t), proptest::bool::weighted(0.3)))
        .prop_map(|(mut t, k)| {
            t.keep_mtime = k;
            t
        })
}

pub fn strategy() -> impl Strategy<Value = Case> {
    let small = gen::raw_config(6, 2, 1).prop_map(|raw| gen::build_config(&raw, CycleMode::Acyclic));
    // half of the large configurations consist mostly of multi-byte characters (long ignore
    // entries): whatever lies at a buffer boundary of the generated file is then likely to be
    // the middle of a character
    let big = (60usize..300, vec(any::<u16>(), 16), any::<bool>()).prop_map(|(n, picks, wide)| {
        let mut c = c18::big_config(n, &picks);
        if wide {
            for (i, t) in c.targets.iter_mut().enumerate() {
                let ch = ["€", "é", "共", "𝄞"][i % 4];
                t.ignores.push(format!("{}/{}{}.md", t.path, ch.repeat(30 + i % 17), i));
            }
        }
        c
    });
    (prop_oneof![1 => small, 2 => big], vec(tamper(), 4..10), 0u8..=1, proptest::bool::weighted(0.3), proptest::bool::weighted(0.25), proptest::bool::weighted(0.25), proptest::bool::weighted(0.25))
        .prop_map(|(config, tampers, source_kind, dotted_name, outer_cwd, symlinked_config, relocate)| Case { config, tampers, source_kind, dotted_name, outer_cwd, symlinked_config, relocate: relocate && !outer_cwd })
}

fn apply(orig: &[u8], t: &Tamper) -> Option<Vec<u8>> {
    let len = orig.len();
    let off = match t.offset {
        Offset::Abs(o) => o,
        Offset::Frac(f) => pick(f, len),
        Offset::Near(b, d) => (b as i64 + d as i64).max(0) as usize,
        Offset::Last => len.saturating_sub(1),
    };
    match &t.kind {
        Kind::Xor(m) => {
            if off >= len {
                return None;
            }
            let mut v = orig.to_vec();
            v[off] ^= m;
            Some(v)
        }
        Kind::Truncate => {
            if off >= len {
                return None;
            }
            Some(orig[..off].to_vec())
        }
        Kind::Append(b) => {
            let mut v = orig.to_vec();
            v.extend_from_slice(b);
            Some(v)
        }
        Kind::AppendPeriodic(period, n) => {
            let mut v = orig.to_vec();
            for _ in 0..*n {
                let b = if v.len() >= *period { v[v.len() - period] } else { 0 };
                v.push(b);
            }
            Some(v)
        }
        Kind::TruncateTail(n) => {
            if *n >= len {
                return None;
            }
            Some(orig[..len - n].to_vec())
        }
    }
}

struct Api {
    args: &'static [&'static str],
}
const APIS: [Api; 13] = [
    Api { args: &["config", "show"] },
    Api { args: &["target", "show", "-g"] },
    Api { args: &["analyze"] },
    Api { args: &["run", "-c", "c0"] },
    Api { args: &["checkpoint", "show"] },
    Api { args: &["checkpoint", "update"] },
    Api { args: &["result", "show"] },
    Api { args: &["log", "show", "--stdout"] },
    Api { args: &["out", "delete"] },
    Api { args: &["checkpoint", "delete"] },
    Api { args: &["target", "render", "-f", "c17-graph.dot"] },
    Api { args: &["log", "tail", "--stdout"] },
    Api { args: &["out", "delete", "--all"] },
];
const LOG_TAIL: usize = 11;

/// Invoke one API. `log tail` never returns by itself when it is accepted: it counts as
/// successful (exit 0) as soon as it listens on the log port, and is then killed.
fn invoke(env: &mut Env, i: usize) -> bb::MrOut {
    if i != LOG_TAIL {
        return env.mr(APIS[i].args);
    }
    let mut t = env.mr_spawn(APIS[i].args, &[]);
    let t0 = std::time::Instant::now();
    loop {
        if t.try_done() {
            return t.wait(std::time::Duration::from_secs(5));
        }
        if bb::is_listening(env.log_port) || t0.elapsed() > std::time::Duration::from_secs(20) {
            let listening = bb::is_listening(env.log_port);
            t.kill_group();
            let mut o = t.wait(std::time::Duration::from_secs(5));
            if listening {
                o.code = Some(0);
                o.signal = None;
            }
            return o;
        }
        std::thread::sleep(std::time::Duration::from_millis(2));
    }
}

pub fn check(case: &Case, w: usize) -> CheckResult {
    let mut env = Env::new(w);
    let lock_name = if case.dotted_name {
        env.config_name = "Monorail.dev.json".to_string();
        "Monorail.dev.lock"
    } else {
        "Monorail.lock"
    };
    let mut cfg = case.config.clone();
    cfg.source_path = Some("Monorail.src.json".into());
    if case.outer_cwd {
        env.cwd_override = Some(env.case_dir.clone());
        cfg.source_path = Some("repo/Monorail.src.json".into());
    }
    // (`out delete` resolves the output directory against the current directory: not used from outside)
    let usable = |i: usize| !(case.outer_cwd && (i == 8 || i == 12));
    env.install_config(&cfg);
    // source file: the configuration itself (pretty), generated file: written by monorail
    let src_bytes = env.with_ports(&cfg).to_json().into_bytes();
    // the output path already holds an older, longer generated configuration (more targets then):
    // `generate` replaces it
    {
        let mut older = cfg.clone();
        for i in 0..40 {
            older.targets.push(crate::model::TargetSpec::new(&format!("removed/since/then-{:02}", i)));
        }
        if case.symlinked_config {
            let _ = std::fs::remove_file(env.config_path());
            let _ = std::os::unix::fs::symlink("Monorail.gen.json", env.config_path());
        }
        // (written through the link, where there is one)
        std::fs::write(env.config_path(), serde_json::to_string_pretty(&env.with_ports(&older).to_value()).unwrap()).ok();
        env.write_file(lock_name, b"{\"checksum\":\"0000000000000000000000000000000000000000000000000000000000000000\",\"padding\":\"an older and longer lockfile\"}\n");
    }
    let src_file = source_file_bytes(case.source_kind, &src_bytes);
    env.write_file("Monorail.src.json", &src_file);
    let mut beh = BTreeMap::new();
    for t in &cfg.targets {
        beh.insert(("c0".to_string(), t.path.clone()), Behavior::default());
    }
    // only a few command files are needed to see whether helpers start
    let some: BTreeMap<_, _> = beh.into_iter().take(3).collect();
    bb::install_simple(&env, &cfg, &some);
    let ntargets_with_cmd = some.len();
    let over = env.cwd_override.take();
    if let Err(e) = env.git_init() {
        return inconclusive(e);
    }
    env.write_file(".gitignore", b"monorail-out/\n");
    if let Err(e) = env.git_ok(&["add", "-A"]).and_then(|_| env.git_ok(&["commit", "-q", "-m", "init"])) {
        return inconclusive(e);
    }
    env.cwd_override = over;
    let g = env.mr_stdin(&["config", "generate"], &src_bytes);
    if !g.ok() && case.outer_cwd {
        // which directory a relative `source.path` refers to is `generate`'s to decide
        return inconclusive(format!("config generate from the directory above the repository failed: {}", g.brief()));
    }
    if !g.ok() {
        return viol_obs("c17.generate.failed", "config generate rejected a valid source configuration".into(), g.brief());
    }
    if case.relocate {
        let moved = env.case_dir.join("moved-checkout");
        std::fs::rename(&env.repo, &moved).map_err(|e| Inconclusive(e.to_string()))?;
        env.repo = moved;
        // (the helper finds its behaviour by the path of the command file: register the new paths)
        bb::install_simple(&env, &cfg, &some);
    }
    let gen_path = env.config_path();
    let lock_path = env.path(lock_name);
    let (Ok(gen_bytes), Ok(lock_bytes)) = (std::fs::read(&gen_path), std::fs::read(&lock_path)) else {
        return viol("c17.generate.files", "config generate did not write the generated file and the lockfile".into());
    };
    let lock_checksum = serde_json::from_slice::<Value>(&lock_bytes)
        .ok()
        .and_then(|v| v.get("checksum").and_then(|c| c.as_str()).map(String::from));
    // untouched: everything works (state is built up in an order that makes every API meaningful)
    let order = [0usize, 1, 2, 3, 5, 2, 4, 9, 5, 6, 7, 10, 11, 8, 12, 3, 5];
    let mut seen_update = false;
    for &i in order.iter().filter(|&&i| usable(i)) {
        env.clear_traces();
        let o = invoke(&mut env, i);
        if !o.ok() {
            return viol_obs(
                "c17.untouched.rejected",
                format!(
                    "`{}` fails although source, generated file and lockfile are untouched (generated file {} bytes)",
                    APIS[i].args.join(" "),
                    gen_bytes.len()
                ),
                o.brief(),
            );
        }
        if i == 3 && env.traces().len() != ntargets_with_cmd && !seen_update {
            return viol("c17.untouched.run", "run on the untouched configuration did not start the defined commands".into());
        }
        if i == 5 {
            seen_update = true;
        }
    }
    let render_path = env.path("c17-graph.dot");
    let render_path_outer = env.case_dir.join("c17-graph.dot");
    let out_dir = env.path("monorail-out");
    let mut info = CaseInfo::new(false);
    let mut nontrivial = false;
    for (ti, t) in case.tampers.iter().enumerate() {
        let (path, orig) = match t.file {
            FileSel::Source => (env.path("Monorail.src.json"), &src_file),
            FileSel::Generated => (gen_path.clone(), &gen_bytes),
            FileSel::Lock => (lock_path.clone(), &lock_bytes),
        };
        let Some(new) = apply(orig, t) else {
            info = info.class("offset-beyond-file");
            continue;
        };
        if &new == orig {
            continue;
        }
        if t.file == FileSel::Lock {
            let parsed = serde_json::from_slice::<Value>(&new)
                .ok()
                .and_then(|v| v.get("checksum").and_then(|c| c.as_str()).map(String::from));
            if parsed.is_some() && parsed == lock_checksum {
                info = info.class("lockfile-checksum-intact(not judged)");
                continue;
            }
        }
        let orig_mtime = std::fs::metadata(&path).and_then(|m| m.modified()).ok();
        std::fs::write(&path, &new).map_err(|e| Inconclusive(e.to_string()))?;
        if t.keep_mtime {
            if let (Some(mt), Ok(f)) = (orig_mtime, std::fs::OpenOptions::new().write(true).open(&path)) {
                let _ = f.set_modified(mt);
            }
        }
        // every third tamper meets a tree without an output directory (fresh checkout)
        if ti % 3 == 1 {
            let _ = std::fs::remove_dir_all(&out_dir);
        }
        let top_level = |env: &Env| -> BTreeSet<String> {
            std::fs::read_dir(env.path(""))
                .map(|rd| rd.flatten().map(|e| e.file_name().to_string_lossy().to_string()).collect())
                .unwrap_or_default()
        };
        let _ = std::fs::remove_file(&render_path);
        let _ = std::fs::remove_file(&render_path_outer);
        let snap = (out_dir.exists(), top_level(&env), bb::snapshot_dir(&out_dir));
        // two APIs per tamper, rotating through all of them
        for k in 0..2 {
            let mut api_index = (ti * 2 + k + case.tampers.len()) % APIS.len();
            if !usable(api_index) {
                api_index = (api_index + 1) % APIS.len();
            }
            let api = &APIS[api_index];
            env.clear_traces();
            let _ = std::fs::remove_file(&render_path);
            let _ = std::fs::remove_file(&render_path_outer);
            let o = invoke(&mut env, api_index);
            let started = env.traces().len();
            let snap2 = (out_dir.exists(), top_level(&env), bb::snapshot_dir(&out_dir));
            if render_path.exists() || render_path_outer.exists() {
                std::fs::write(&path, orig).ok();
                return viol("c17.tampered.action", format!("`{}` wrote its output file after tamper {:?} {:?} {:?}", api.args.join(" "), t.file, t.kind, t.offset));
            }
            let off_desc = format!("{:?} {:?} {:?}", t.file, t.kind, t.offset);
            if o.code == Some(0) {
                let sig = match t.file {
                    FileSel::Generated if orig.len() > 8192 => "c17.tampered.accepted.generated.large",
                    FileSel::Generated => "c17.tampered.accepted.generated",
                    FileSel::Source => "c17.tampered.accepted.source",
                    FileSel::Lock => "c17.tampered.accepted.lock",
                };
                std::fs::write(&path, orig).ok();
                return viol_obs(
                    sig,
                    format!("`{}` succeeds after tamper {} (file length {})", api.args.join(" "), off_desc, orig.len()),
                    o.brief(),
                );
            }
            if o.error().is_none() {
                std::fs::write(&path, orig).ok();
                return viol_obs("c17.tampered.noerror", format!("`{}` failed without an error on stderr", api.args.join(" ")), o.brief());
            }
            if started != 0 || snap != snap2 {
                std::fs::write(&path, orig).ok();
                return viol(
                    "c17.tampered.action",
                    format!(
                        "`{}` was rejected after tamper {} but still acted ({} helpers started, output directory or top-level entries changed: {}; new entries {:?})",
                        api.args.join(" "),
                        off_desc,
                        started,
                        snap != snap2,
                        snap2.1.difference(&snap.1).collect::<Vec<_>>()
                    ),
                );
            }
        }
        std::fs::write(&path, orig).map_err(|e| Inconclusive(e.to_string()))?;
        let off = match t.offset {
            Offset::Abs(o) => o,
            Offset::Frac(f) => pick(f, orig.len()),
            Offset::Near(b, d) => (b as i64 + d as i64).max(0) as usize,
            Offset::Last => orig.len().saturating_sub(1),
        };
        if off >= 8192 || t.file != FileSel::Generated {
            nontrivial = true;
        }
        info = info
            .class(&format!("{:?}", t.file))
            .class(match t.kind {
                Kind::Xor(_) => "xor",
                Kind::Truncate => "truncate",
                Kind::Append(_) => "append",
                Kind::AppendPeriodic(..) => "append-periodic",
                Kind::TruncateTail(_) => "truncate-tail",
            })
            .class_if(t.keep_mtime, "mtime-preserved")
            .class_if(case.outer_cwd, "invoked-from-the-directory-above-the-repository")
            .class_if(case.symlinked_config, "configuration-file-is-a-symbolic-link")
            .class_if(case.relocate, "repository-moved-after-generate")
            .class(if off < 8192 { "offset<8192" } else if off < 16384 { "offset<16384" } else { "offset>=16384" });
    }
    // generating again from the same source repairs a damaged generated file: afterwards the three
    // files are what `generate` read and wrote, and everything works
    {
        let mut damaged = gen_bytes.clone();
        damaged.extend_from_slice(b"\n \n");
        std::fs::write(&gen_path, &damaged).map_err(|e| Inconclusive(e.to_string()))?;
        let g = env.mr_stdin(&["config", "generate"], &src_bytes);
        if !g.ok() {
            return viol_obs("c17.regenerate.failed", "a second `config generate` from the same source failed".into(), g.brief());
        }
        let o = env.mr(&["config", "show"]);
        if !o.ok() {
            return viol_obs(
                "c17.untouched.rejected.after-regenerate",
                "`config show` fails right after a successful `config generate` (the generated file had been damaged before that generate)".into(),
                o.brief(),
            );
        }
    }
    info.nontrivial = nontrivial;
    Ok(info.inv(env.invocations))
}

/// Exhaustive single-byte edits of one small triple, chunked into cases.
pub fn exhaustive_cases() -> Vec<Case> {
    let mut a = crate::model::TargetSpec::new("a");
    a.uses = vec!["lib/f".into()];
    let config = ConfigSpec {
        targets: vec![a, crate::model::TargetSpec::new("lib")],
        ..Default::default()
    };
    let mut all = vec![];
    for (file, len) in [(FileSel::Source, 520usize), (FileSel::Generated, 700), (FileSel::Lock, 90)] {
        for o in 0..len {
            all.push(Tamper {
                file,
                kind: Kind::Xor(if o % 2 == 0 { 0x01 } else { 0x20 }),
                offset: Offset::Abs(o),
                keep_mtime: o % 5 == 0,
            });
        }
    }
    for file in [FileSel::Source, FileSel::Generated, FileSel::Lock] {
        for k in [Kind::Append(vec![0u8]), Kind::Append(vec![0u8; 5]), Kind::AppendPeriodic(8192, 1), Kind::AppendPeriodic(512, 2), Kind::TruncateTail(1), Kind::Append(b"\n".to_vec())] {
            all.push(Tamper {
                file,
                kind: k,
                offset: Offset::Last,
                keep_mtime: false,
            });
        }
        // the file emptied, and cut to its first byte
        for o in [0usize, 1] {
            all.push(Tamper {
                file,
                kind: Kind::Truncate,
                offset: Offset::Abs(o),
                keep_mtime: o == 0,
            });
        }
    }
    all.chunks(40)
        .map(|c| Case {
            config: config.clone(),
            tampers: c.to_vec(),
            source_kind: 1,
            dotted_name: false,
            outer_cwd: false,
            symlinked_config: false,
            relocate: false,
        })
        .collect()
}

// ---------------------------------------------------------------------------
// in-process sweep: the loading step (`Config::new` + `check`, hook `verif::config_load`) over
// every single-byte edit - all 255 masks - and every truncation of the three files

#[derive(Debug, Clone, Serialize, Deserialize)]
pub struct SweepCase {
    /// number of targets of the source configuration (c18::big_config), 0 = the small two-target one
    pub targets: usize,
    pub file: FileSel,
    /// offsets [from, to) of the file are edited (clipped to its length)
    pub from: usize,
    pub to: usize,
    /// every mask 1..=255 (true) or the masks 0x01, 0x20, 0x80 only
    pub all_masks: bool,
}

fn lock_checksum_of(bytes: &[u8]) -> Option<String> {
    serde_json::from_slice::<Value>(bytes)
        .ok()
        .and_then(|v| v.get("checksum").and_then(|c| c.as_str()).map(String::from))
}

/// The process-wide current directory for the in-process form: `Config::check` resolves
/// `source.path` against it, exactly as `config generate` (run from the same directory) did.
pub fn enter_scratch_root() {
    let _ = std::env::set_current_dir(crate::scratch::fast_root());
}

pub fn check_sweep(case: &SweepCase, w: usize) -> CheckResult {
    enter_scratch_root();
    let mut env = Env::new_in(crate::scratch::fast_root(), w);
    env.cwd_override = Some(crate::scratch::fast_root().to_path_buf());
    let rel_repo = env
        .repo
        .strip_prefix(crate::scratch::fast_root())
        .map_err(|e| Inconclusive(e.to_string()))?
        .to_string_lossy()
        .to_string();
    let mut cfg = if case.targets == 0 {
        let mut a = crate::model::TargetSpec::new("a");
        a.uses = vec!["lib/f".into()];
        ConfigSpec {
            targets: vec![a, crate::model::TargetSpec::new("lib")],
            ..Default::default()
        }
    } else {
        c18::big_config(case.targets, &[7, 77, 777, 7777, 3, 33, 333, 3333, 5, 55, 555, 5555, 1, 11, 111, 1111])
    };
    cfg.source_path = Some(format!("{}/Monorail.src.json", rel_repo));
    let src_bytes = env.with_ports(&cfg).to_json().into_bytes();
    let src_file = source_file_bytes(1, &src_bytes);
    std::fs::create_dir_all(&env.repo).map_err(|e| Inconclusive(e.to_string()))?;
    env.write_file("Monorail.src.json", &src_file);
    let g = env.mr_stdin(&["config", "generate"], &src_bytes);
    if !g.ok() {
        return inconclusive(format!("config generate (from the scratch root) failed: {}", g.brief()));
    }
    let gen_path = env.config_path();
    let lock_path = env.path("Monorail.lock");
    let (Ok(gen_bytes), Ok(lock_bytes)) = (std::fs::read(&gen_path), std::fs::read(&lock_path)) else {
        return viol("c17.generate.files", "config generate did not write the generated file and the lockfile".into());
    };
    if let Err(e) = monorail::verif::config_load(&gen_path) {
        return viol_obs(
            "c17.inproc.untouched.rejected",
            format!("loading fails although source, generated file ({} bytes) and lockfile are untouched", gen_bytes.len()),
            json!({"error": e}),
        );
    }
    let lock_checksum = lock_checksum_of(&lock_bytes);
    let (path, orig) = match case.file {
        FileSel::Source => (env.path("Monorail.src.json"), &src_file),
        FileSel::Generated => (gen_path.clone(), &gen_bytes),
        FileSel::Lock => (lock_path.clone(), &lock_bytes),
    };
    let masks: Vec<u8> = if case.all_masks { (1u8..=255).collect() } else { vec![0x01, 0x20, 0x80] };
    let mut judged = 0u64;
    let mut skipped_lock = 0u64;
    let to = case.to.min(orig.len());
    let mut try_one = |new: &[u8], what: String| -> Result<(), CheckError> {
        if case.file == FileSel::Lock {
            let parsed = lock_checksum_of(new);
            if parsed.is_some() && parsed == lock_checksum {
                skipped_lock += 1;
                return Ok(());
            }
        }
        std::fs::write(&path, new).map_err(|e| Inconclusive(e.to_string()))?;
        let r = monorail::verif::config_load(&gen_path);
        judged += 1;
        if r.is_ok() {
            let _ = std::fs::write(&path, orig);
            let sig = match case.file {
                FileSel::Generated => "c17.inproc.tampered.accepted.generated",
                FileSel::Source => "c17.inproc.tampered.accepted.source",
                FileSel::Lock => "c17.inproc.tampered.accepted.lock",
            };
            return viol(sig, format!("loading succeeds after {} of the {:?} file (length {})", what, case.file, orig.len()));
        }
        Ok(())
    };
    for o in case.from..to {
        for m in &masks {
            let mut v = orig.clone();
            v[o] ^= m;
            try_one(&v, format!("XOR {:#04x} at offset {}", m, o))?;
        }
        try_one(&orig[..o], format!("truncation to {} bytes", o))?;
        // one byte inserted / removed at this offset
        let mut ins = orig[..o].to_vec();
        ins.push(b' ');
        ins.extend_from_slice(&orig[o..]);
        try_one(&ins, format!("insertion of a blank at offset {}", o))?;
        let mut del = orig[..o].to_vec();
        del.extend_from_slice(&orig[o + 1..]);
        try_one(&del, format!("removal of the byte at offset {}", o))?;
    }
    std::fs::write(&path, orig).map_err(|e| Inconclusive(e.to_string()))?;
    // and afterwards the untouched triple loads again
    if let Err(e) = monorail::verif::config_load(&gen_path) {
        return viol_obs("c17.inproc.untouched.rejected", "loading fails after the original bytes were put back".into(), json!({"error": e}));
    }
    let mut info = CaseInfo::new(case.file != FileSel::Generated || to > 8192)
        .class(&format!("sweep-{:?}", case.file))
        .class(if orig.len() > 16384 { "file>16KiB" } else if orig.len() > 8192 { "file>8KiB" } else { "file<=8KiB" })
        .class_if(skipped_lock > 0, "lockfile-checksum-intact(not judged)")
        .inv(env.invocations);
    info.weight = judged;
    Ok(info)
}

/// Sweep cases: the whole of the small triple under all 255 masks; of a large triple (generated
/// file of several 8 KiB buffers) every offset under three masks and the offsets around buffer
/// boundaries under all masks.
pub fn sweep_cases(thorough: bool) -> Vec<SweepCase> {
    let mut v = vec![];
    for (file, len) in [(FileSel::Source, 700usize), (FileSel::Generated, 900), (FileSel::Lock, 120)] {
        let mut o = 0;
        while o < len {
            v.push(SweepCase { targets: 0, file, from: o, to: o + 16, all_masks: true });
            o += 16;
        }
    }
    let big = if thorough { vec![40usize, 120, 300] } else { vec![120usize] };
    for n in big {
        for file in [FileSel::Source, FileSel::Generated] {
            let len = if thorough { 80_000 } else { 24_000 };
            let mut o = 0;
            while o < len {
                v.push(SweepCase { targets: n, file, from: o, to: o + 256, all_masks: false });
                o += 256;
            }
            for b in [4096usize, 8192, 16384, 32768, 65536] {
                v.push(SweepCase { targets: n, file, from: b - 4, to: b + 4, all_masks: true });
            }
        }
    }
    v
}

pub fn run(ctx: &mut Ctx) {
    ctx.rule = "a valid source configuration (2-6 generated targets, or 60-300 targets so that the generated file spans several 8 KiB buffers) passed through the real `config generate`; \
the source file is the JSON document or a script in another encoding (Latin-1 bytes, incomplete multi-byte tail) around it; first every API is exercised on the untouched triple (all must succeed, run must start its helpers); then single tampers: file in {source, generated, lockfile} x {XOR a non-zero mask into one byte, \
truncate, append (text, NUL bytes, bytes repeating the content 512/4096/8192/16384/65536 positions earlier), cut 1-3 tail bytes}, 30% with the file's modification time restored afterwards x offset (first, last, uniformly random, within 3 bytes of 8192/16384/65536); plus every single-byte edit of one small triple. oracle per tamper (2 of 13 APIs, rotating): \
non-zero exit, error JSON on stderr, no helper started, out dir byte-identical (a third of the tampers meet a tree without an output directory: none may appear), no new top-level entry in the repository. lockfile edits that leave the parsed checksum intact are not judged. \
non-trivial = tamper offset >= 8192, or tamper in source/lockfile; distinct by SHA-256"
        .to_string();
    ctx.assumptions = vec!["APIs: config show, target show -g, analyze, run, checkpoint show/update/delete, result show, log show, out delete (with and without --all), target render, log tail (accepted = listening on the log port)".into()];
    ctx.drive_all(
        "inproc-sweep",
        sweep_cases(ctx.thorough()),
        "in-process loading (Config::new + check) after every single-byte XOR (all 255 masks), truncation, one-byte insertion and removal at every offset of source, generated file and lockfile of a small configuration; for a large configuration every offset of source and generated file under three masks, and all masks within 4 bytes of 4/8/16/32/64 KiB",
        check_sweep,
    );
    ctx.drive_all("exhaustive-small", exhaustive_cases(), "one XOR edit (mask 0x01 or 0x20) at every byte offset of source, generated file and lockfile of one small configuration", check);
    let n = ctx.n(60, 1500);
    ctx.drive("sampled", strategy, n, check);
}

pub fn replay(ctx: &Ctx, label: &str, case: Value) -> Result<(), String> {
    if label.contains("inproc-sweep") {
        let c: SweepCase = serde_json::from_value(case).map_err(|e| e.to_string())?;
        let r = check_sweep(&c, 0);
        ctx.replay_one(label, &c, r);
        return Ok(());
    }
    let c: Case = serde_json::from_value(case).map_err(|e| e.to_string())?;
    let r = check(&c, 0);
    ctx.replay_one(label, &c, r);
    Ok(())
}
