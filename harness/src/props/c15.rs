//! C15 - log streaming never affects the outcome of a run.
//! C20 - what `log tail` prints reassembles to each task's log, within its filters.

use crate::bb::{self, Behavior, Env, Step};
use crate::gen;
use crate::model::ConfigSpec;
use crate::runner::*;
use proptest::collection::vec;
use proptest::prelude::*;
use serde::{Deserialize, Serialize};
use serde_json::{json, Value};
use std::collections::{BTreeMap, BTreeSet};
use std::io::{Read, Write};
use std::time::{Duration, Instant};

#[derive(Debug, Clone, Serialize, Deserialize, PartialEq)]
pub struct Filters {
    pub stdout: bool,
    pub stderr: bool,
    pub targets: Vec<String>,
    pub commands: Vec<String>,
}
impl Filters {
    pub fn args(&self) -> Vec<String> {
        let mut a = vec!["log".to_string(), "tail".to_string()];
        if self.stdout {
            a.push("--stdout".into());
        }
        if self.stderr {
            a.push("--stderr".into());
        }
        if !self.targets.is_empty() {
            a.push("-t".into());
            a.extend(self.targets.iter().cloned());
        }
        if !self.commands.is_empty() {
            a.push("-c".into());
            a.extend(self.commands.iter().cloned());
        }
        a
    }
    pub fn admits(&self, stream: &str, target: &str, command: &str) -> bool {
        let s = (stream == "stdout" && self.stdout) || (stream == "stderr" && self.stderr);
        s && (self.targets.is_empty() || self.targets.iter().any(|t| t == target))
            && (self.commands.is_empty() || self.commands.iter().any(|c| c == command))
    }
}

#[derive(Debug, Clone, Serialize, Deserialize, PartialEq)]
pub enum Listener {
    Absent,
    RealTail(Filters),
    /// harness-owned listener speaking the handshake
    Fake,
}

#[derive(Debug, Clone, Serialize, Deserialize, PartialEq)]
pub enum Fault {
    None,
    KilledBeforeRun,
    /// killed / closed this many ms after the run was started
    KillAfterMs(u64),
    /// fake only: close after this many bytes were received
    CloseAfterBytes(usize),
    /// fake only: accept, then close without sending the handshake
    CloseBeforeHandshake,
}

#[derive(Debug, Clone, Serialize, Deserialize)]
pub struct Plan {
    pub layers: Vec<usize>,
    pub picks: Vec<u16>,
    pub ncmd: usize,
    /// per task: (lines on stdout, lines on stderr, pause between lines ms)
    pub tasks: Vec<(usize, usize, u64)>,
    /// exit code of one task (command index, target index), if any
    pub fail: Option<(u16, u16, i32)>,
    /// bit k of the mask: task k ends stdout (even k) / stderr (odd k) without a final newline
    #[serde(default)]
    pub unterminated: u32,
    /// bit k: the lines of task k are written in two parts with a pause longer than the flush tick in between
    #[serde(default)]
    pub split_lines: u32,
    /// bit k: task k writes a burst of 150-400 lines at once (tens of KiB per flush)
    #[serde(default)]
    pub bursts: u32,
    /// bit k: task k first writes one very long line of multi-byte characters (just over 4, 8,
    /// 16 or 64 KiB; the offset of the characters varies with the length of the line's tag)
    #[serde(default)]
    pub long_lines: u32,
    /// bit k: task k ends each of its streams with 70-200 KiB written at once (more than a pipe
    /// buffer, long after the stream's first output)
    #[serde(default)]
    pub late_bursts: u32,
    /// the first task writes its first stdout line, stays silent for this long (ms), then goes on;
    /// with the other members of its group done by then, the whole run is quiet in between
    #[serde(default)]
    pub quiet_ms: u64,
    /// (layer, command): the command file of the first target of that layer lacks the x bit -
    /// nothing of its group is started, everything later is skipped, with or without a listener
    #[serde(default)]
    pub not_exec: Option<(u16, u16)>,
}

#[derive(Debug, Clone, Serialize, Deserialize)]
pub struct Case {
    pub plan: Plan,
    pub listener: Listener,
    pub fault: Fault,
    /// delay (ms) injected while a task holds the listener connection (guarded point log.stream.locked)
    #[serde(default)]
    pub lock_delay_ms: u64,
}

pub fn plan(max_layer: usize, chatty: bool) -> impl Strategy<Value = Plan> {
    (
        vec(1usize..=max_layer, 1..=3),
        vec(any::<u16>(), 8),
        1usize..=2,
        vec((0usize..=5, 0usize..=4, if chatty { 60u64..=250 } else { 0u64..=40 }), 12),
        proptest::option::weighted(0.2, (any::<u16>(), any::<u16>(), 1i32..=9)),
        prop_oneof![1 => Just(0u32), 2 => any::<u32>()],
        prop_oneof![2 => Just(0u32), 1 => any::<u32>().prop_map(|x| x & 0x1111_1111)],
        prop_oneof![2 => Just(0u32), 1 => any::<u32>().prop_map(|x| x & 0x2222_2222)],
        (
            prop_oneof![2 => Just(0u32), 1 => any::<u32>().prop_map(|x| x & 0x4924_9249)],
            prop_oneof![2 => Just(0u32), 1 => any::<u32>().prop_map(|x| x & 0x1249_2492)],
        ),
    )
        .prop_map(|(layers, picks, ncmd, tasks, fail, unterminated, split_lines, bursts, (long_lines, late_bursts))| Plan {
            layers,
            picks,
            ncmd,
            tasks,
            fail,
            unterminated,
            split_lines,
            bursts,
            long_lines,
            late_bursts,
            quiet_ms: 0,
            not_exec: None,
        })
}

fn filters(plan_targets: usize) -> impl Strategy<Value = Filters> {
    (
        prop_oneof![Just((true, true)), Just((true, false)), Just((false, true))],
        vec(any::<u16>(), 0..=2),
        prop_oneof![3 => Just(vec![]), 1 => Just(vec!["c0".to_string()]), 1 => Just(vec!["c1".to_string()]), 1 => Just(vec!["c0".to_string(), "c1".to_string()])],
    )
        .prop_map(move |((so, se), ts, commands)| {
            let _ = plan_targets;
            let mut targets: Vec<String> = ts.iter().map(|t| format!("#{}", t)).collect(); // resolved against the config later
            // the listener may also follow targets that are not part of this run: one long name
            // (longer than any target here, with multi-byte characters), or a dozen of them (a
            // filter line of well over a kilobyte)
            let extra = ts.iter().fold(0u32, |a, t| a.wrapping_mul(31).wrapping_add(*t as u32)) % 5;
            if !targets.is_empty() && extra == 1 {
                targets.push("services/api/une-cible-qui-n-est-pas-dans-cette-exécution".to_string());
            }
            // or only targets that are not part of this run: nothing of it is admitted
            if !targets.is_empty() && extra == 3 {
                targets = vec!["elsewhere/a-target-that-is-not-part-of-this-run".to_string()];
            }
            if !targets.is_empty() && extra == 2 {
                for i in 0..12 {
                    targets.push(format!("elsewhere/{}/a-target-with-a-rather-long-path-that-is-not-part-of-this-run-{:02}", "x".repeat(40), i));
                }
            }
            Filters {
                stdout: so,
                stderr: se,
                targets,
                commands,
            }
        })
}

pub fn strategy_c15() -> impl Strategy<Value = Case> {
    (
        plan(3, true),
        prop_oneof![1 => Just(Listener::Absent), 3 => filters(0).prop_map(Listener::RealTail), 3 => Just(Listener::Fake)],
        prop_oneof![
            1 => Just(Fault::None),
            1 => Just(Fault::KilledBeforeRun),
            4 => (20u64..1200).prop_map(Fault::KillAfterMs),
            2 => (1usize..600).prop_map(Fault::CloseAfterBytes),
            1 => Just(Fault::CloseBeforeHandshake),
        ],
        prop_oneof![7 => Just(0u64), 1 => 520u64..700],
    )
        .prop_map(|(mut plan, listener, fault, lock_delay_ms)| {
            if lock_delay_ms >= 500 {
                // the connection is held longer than the flush interval by every flush: a small
                // plan, everything streamed to a real listener that stays
                plan.layers = vec![plan.layers[0].min(3)];
                plan.ncmd = 1;
                plan.bursts = 0;
                plan.long_lines = 0;
                plan.late_bursts = 0;
                plan.fail = None;
                return Case {
                    plan,
                    listener: Listener::RealTail(Filters { stdout: true, stderr: true, targets: vec![], commands: vec![] }),
                    fault: Fault::None,
                    lock_delay_ms,
                };
            }
            // a failing task cancels its siblings at a timing-dependent point, which would make
            // two executions of the same plan differ by themselves: keep failing tasks alone
            if plan.fail.is_some() {
                plan.layers = plan.layers.iter().map(|_| 1).collect();
            } else if plan.picks[0] % 4 == 0 {
                // a command file without the x bit: found before anything of its group is started,
                // so the outcome is the same in every execution - whatever a listener filters on
                plan.not_exec = Some((plan.picks[1], plan.picks[2]));
            }
            let fault = match (&listener, fault) {
                (Listener::Absent, _) => Fault::None,
                (Listener::RealTail(_), Fault::CloseAfterBytes(n)) => Fault::KillAfterMs(n as u64),
                (Listener::RealTail(_), Fault::CloseBeforeHandshake) => Fault::KilledBeforeRun,
                (_, f) => f,
            };
            Case { plan, listener, fault, lock_delay_ms: 0 }
        })
}

/// A listener that follows some members of a group whose first member's command file lacks the
/// x bit: which members are skipped is decided by the plan, not by what a listener follows.
pub fn notexec_cases(thorough: bool) -> Vec<Case> {
    let mut v = vec![];
    let shapes: &[(&[usize], u16)] = if thorough { &[(&[3], 0), (&[2, 3], 1), (&[4], 0), (&[1, 4], 1), (&[3, 2], 0), (&[2, 2, 3], 2)] } else { &[(&[3], 0), (&[2, 3], 1), (&[4], 0)] };
    for (layers, layer) in shapes {
        let width = layers[*layer as usize];
        // follow the last member, the second member, or the second and the last
        for follow in [vec![width - 1], vec![1], vec![1, width - 1]] {
            let mut follow = follow;
            follow.dedup();
            v.push(Case {
                plan: Plan {
                    layers: layers.to_vec(),
                    picks: vec![0, 1, 2, 3, 4, 5, 6, 7],
                    ncmd: 1,
                    tasks: vec![(2, 1, 30), (1, 2, 20), (3, 0, 10)],
                    fail: None,
                    unterminated: 0,
                    split_lines: 0,
                    bursts: 0,
                    long_lines: 0,
                    late_bursts: 0,
                    quiet_ms: 0,
                    // picks are mapped monotonically: (layer * 65536 / layers) lands in that layer
                    not_exec: Some((((*layer as u32 * 65536 + 32768) / layers.len() as u32) as u16, 0)),
                },
                listener: Listener::RealTail(Filters {
                    stdout: true,
                    stderr: true,
                    targets: follow.iter().map(|m| format!("l{}t{}", layer, m)).collect(),
                    commands: vec![],
                }),
                fault: Fault::None,
                lock_delay_ms: 0,
            });
        }
    }
    v
}

pub struct Setup {
    pub cfg: ConfigSpec,
    pub commands: Vec<String>,
    /// expected bytes per (stream, target, command)
    pub expected: BTreeMap<(String, String, String), Vec<u8>>,
}

pub fn install(env: &Env, plan: &Plan, tag_lines: bool) -> Setup {
    // C20 speaks about newline-terminated text: no unterminated tails there, but split lines;
    // C15 compares stored logs: unterminated tails welcome
    let allow_unterminated = !tag_lines;
    let tag_lines_only_whole = false;
    let cfg = gen::layered_config(&plan.layers, &plan.picks);
    env.install_config(&cfg);
    let commands: Vec<String> = (0..plan.ncmd).map(|i| format!("c{}", i)).collect();
    let mut beh = BTreeMap::new();
    let mut expected = BTreeMap::new();
    let mut k = 0;
    let n = cfg.targets.len();
    for (ci, c) in commands.iter().enumerate() {
        for (ti, t) in cfg.targets.iter().enumerate() {
            let (no, ne, pause) = plan.tasks[k % plan.tasks.len()];
            k += 1;
            let task_no = k - 1;
            let split = !tag_lines_only_whole && plan.split_lines >> (task_no % 32) & 1 == 1;
            let burst = plan.bursts >> (task_no % 32) & 1 == 1;
            let mk = |stream: &str, lines: usize, unterminated: bool| -> Vec<Step> {
                let mut v = vec![];
                if burst && lines > 0 {
                    // one write of many multi-byte lines: tens of KiB reach the listener in one flush
                    let n = 150 + (pause as usize * 7) % 250;
                    let mut b = vec![];
                    for j in 0..n {
                        b.extend_from_slice(format!("{}¦{}¦{}¦b{} 出力 ünï¢ode ✓ line\n", t.path, c, stream, j).as_bytes());
                    }
                    v.push(Step::W(b));
                }
                if plan.long_lines >> (task_no % 32) & 1 == 1 && lines > 0 {
                    let size = [4_090usize, 8_185, 16_380, 65_530][(pause as usize + task_no) % 4] + (pause as usize % 16);
                    let mut b = format!("{}¦{}¦{}¦long ", t.path, c, stream).into_bytes();
                    while b.len() < size {
                        b.extend_from_slice("€".as_bytes());
                    }
                    b.push(b'\n');
                    v.push(Step::W(b));
                }
                for j in 0..lines {
                    let last = j + 1 == lines;
                    let nl = if last && unterminated { "" } else { "\n" };
                    let line = if tag_lines {
                        // some lines end in blanks (space, tab, no-break space, ideographic space)
                        // or have nothing but blanks after the tag
                        let tail = ["", " ", "\t", "\u{a0}", "  \u{3000}", " x", "", ""][(j + task_no) % 8];
                        if (j + 3 * task_no) % 11 == 10 {
                            format!("{}¦{}¦{}¦   {}", t.path, c, stream, nl)
                        } else if (j + 5 * task_no) % 7 == 6 {
                            // coloured output: ANSI escape sequences are text like any other
                            format!("{}¦{}¦{}¦\x1b[1;32m{} ok\x1b[0m{}", t.path, c, stream, j, nl)
                        } else {
                            format!("{}¦{}¦{}¦{}{}{}", t.path, c, stream, j, tail, nl)
                        }
                    } else {
                        if (j + 5 * task_no) % 7 == 6 {
                            format!("{} {} {} \x1b[31mline\x1b[0m {}{}", t.path, c, stream, j, nl)
                        } else {
                            format!("{} {} {} line {}{}", t.path, c, stream, j, nl)
                        }
                    };
                    let bytes = line.into_bytes();
                    if split && j == 0 && bytes.len() > 4 {
                        // one line written in two parts, the flush tick fires in between
                        let cut = bytes.len() / 2;
                        // keep UTF-8 sequences whole
                        let mut cut = cut;
                        while cut < bytes.len() && (bytes[cut] & 0xC0) == 0x80 {
                            cut += 1;
                        }
                        v.push(Step::W(bytes[..cut].to_vec()));
                        v.push(Step::P(620));
                        v.push(Step::W(bytes[cut..].to_vec()));
                    } else {
                        v.push(Step::W(bytes));
                    }
                    if plan.quiet_ms > 0 && task_no == 0 && j == 0 && stream == "stdout" {
                        v.push(Step::P(plan.quiet_ms));
                    }
                    if pause > 0 {
                        v.push(Step::P(pause));
                    }
                }
                if plan.late_bursts >> (task_no % 32) & 1 == 1 && lines > 0 {
                    let n = 700 + (pause as usize * 11) % 1300;
                    let mut b = vec![];
                    for j in 0..n {
                        b.extend_from_slice(format!("{}¦{}¦{}¦late{} {}\n", t.path, c, stream, j, "x".repeat(70)).as_bytes());
                    }
                    v.push(Step::W(b));
                }
                v
            };
            let no = if plan.quiet_ms > 0 && task_no == 0 { no.max(2) } else { no };
            let out = mk("stdout", no, allow_unterminated && plan.unterminated >> ((2 * task_no) % 32) & 1 == 1);
            let err = mk("stderr", ne, allow_unterminated && plan.unterminated >> ((2 * task_no + 1) % 32) & 1 == 1);
            let exit = match plan.fail {
                Some((fc, ft, code)) if pick(fc, plan.ncmd) == ci && pick(ft, n) == ti => code,
                _ => 0,
            };
            expected.insert(("stdout".to_string(), t.path.clone(), c.clone()), bb::script_bytes(&out));
            expected.insert(("stderr".to_string(), t.path.clone(), c.clone()), bb::script_bytes(&err));
            // a third of the failing tasks do not exit but are killed by a signal
            let kill_self = if exit != 0 && exit % 3 == 0 { Some(9) } else { None };
            beh.insert((c.clone(), t.path.clone()), Behavior { exit, out, err, kill_self, ..Default::default() });
        }
    }
    bb::install_simple(env, &cfg, &beh);
    if let Some((l, c)) = plan.not_exec {
        use std::os::unix::fs::PermissionsExt;
        let layer = pick(l, plan.layers.len());
        let f = bb::simple_cmd_file(&cfg, &format!("l{}t0", layer), &commands[pick(c, plan.ncmd)]);
        let _ = std::fs::set_permissions(env.path(&f), std::fs::Permissions::from_mode(0o644));
    }
    Setup { cfg, commands, expected }
}

pub fn resolve_filters(f: &Filters, cfg: &ConfigSpec) -> Filters {
    let n = cfg.targets.len();
    let mut targets: Vec<String> = f
        .targets
        .iter()
        .map(|t| {
            if !t.starts_with('#') {
                return t.clone(); // a literal name (a target that is not part of this run)
            }
            let idx: u16 = t.trim_start_matches('#').parse().unwrap_or(0);
            cfg.targets[pick(idx, n)].path.clone()
        })
        .collect();
    targets.sort();
    targets.dedup();
    Filters {
        stdout: f.stdout,
        stderr: f.stderr,
        targets,
        commands: f.commands.clone(),
    }
}

#[derive(Debug, PartialEq, Serialize)]
struct Outcome {
    code: Option<i32>,
    failed: Option<bool>,
    statuses: BTreeMap<String, (String, Option<i64>)>,
    logs: BTreeMap<String, String>,
}

fn run_and_collect(env: &mut Env, setup: &Setup, limit: Duration, hang_is_violation: bool, lock_delay_ms: u64) -> Result<(Outcome, bb::MrOut), CheckError> {
    let mut args: Vec<&str> = vec!["run", "-c"];
    for c in &setup.commands {
        args.push(c);
    }
    let points: Vec<(&str, String)> = if lock_delay_ms > 0 {
        vec![("MRV_POINTS", format!("log.stream.locked=delay:{}", lock_delay_ms))]
    } else {
        vec![]
    };
    let out = env.mr_env(&args, &points, limit);
    if out.timed_out {
        if hang_is_violation {
            return viol_obs(
                "c15.hang.with-listener",
                format!("with the listener attached the run did not terminate within {:?}; without it the same run had finished normally", limit),
                json!({"limit_s": limit.as_secs()}),
            );
        }
        return inconclusive("run timed out".into());
    }
    let mut o = Outcome {
        code: out.code,
        failed: None,
        statuses: BTreeMap::new(),
        logs: BTreeMap::new(),
    };
    if let Some(doc) = out.json() {
        if let Ok(run) = bb::parse_run(&doc) {
            o.failed = Some(run.failed);
            let run_path = std::path::PathBuf::from(&run.run_path);
            for (cmd, groups) in &run.results {
                for g in groups {
                    for (t, r) in g {
                        o.statuses.insert(format!("{}|{}", cmd, t), (r.status.clone(), r.code));
                        for stream in ["stdout", "stderr"] {
                            let b = bb::stored_log(&run_path, cmd, t, stream).unwrap_or_else(|_| b"<no stored log>".to_vec());
                            o.logs.insert(format!("{}|{}|{}", cmd, t, stream), String::from_utf8_lossy(&b).to_string());
                        }
                    }
                }
            }
        }
    }
    Ok((o, out))
}

/// Harness-owned listener: accepts one client, optionally sends the handshake,
/// counts received bytes and closes according to the fault.
fn fake_listener(port: u16, fault: Fault, stop: std::sync::Arc<std::sync::atomic::AtomicBool>) -> std::thread::JoinHandle<(bool, usize)> {
    let listener = std::net::TcpListener::bind(("127.0.0.1", port)).expect("bind fake listener");
    listener.set_nonblocking(true).ok();
    std::thread::spawn(move || {
        use std::sync::atomic::Ordering;
        let mut connected = false;
        let mut received = 0usize;
        let t0 = Instant::now();
        while !stop.load(Ordering::SeqCst) && t0.elapsed() < Duration::from_secs(120) {
            match listener.accept() {
                Ok((mut sock, _)) => {
                    connected = true;
                    if fault == Fault::CloseBeforeHandshake {
                        drop(sock);
                        break;
                    }
                    let hs = b"{\"commands\":[],\"targets\":[],\"include_stdout\":true,\"include_stderr\":true}\n";
                    if sock.write_all(hs).is_err() {
                        break;
                    }
                    sock.set_nonblocking(false).ok();
                    sock.set_read_timeout(Some(Duration::from_millis(5))).ok();
                    let tc = Instant::now();
                    let mut buf = [0u8; 4096];
                    loop {
                        if stop.load(Ordering::SeqCst) {
                            break;
                        }
                        match fault {
                            Fault::KillAfterMs(ms) if tc.elapsed() > Duration::from_millis(ms) => break,
                            Fault::CloseAfterBytes(n) if received >= n => break,
                            _ => {}
                        }
                        match sock.read(&mut buf) {
                            Ok(0) => break,
                            Ok(n) => received += n,
                            Err(_) => {}
                        }
                    }
                    drop(sock);
                    break;
                }
                Err(_) => std::thread::sleep(Duration::from_millis(1)),
            }
        }
        (connected, received)
    })
}

pub fn check_c15(case: &Case, w: usize) -> CheckResult {
    let mut env = Env::new(w);
    let setup = install(&env, &case.plan, false);
    // reference: no listener
    let (reference, ref_out) = run_and_collect(&mut env, &setup, Duration::from_secs(120), false, 0)?;
    if reference.failed.is_none() {
        return inconclusive(format!("reference run produced no document: {}", ref_out.brief()));
    }
    let ref_wall = ref_out.wall;
    // with listener
    let port = env.log_port;
    let stop = std::sync::Arc::new(std::sync::atomic::AtomicBool::new(false));
    let mut tail: Option<bb::Running> = None;
    let mut fake: Option<std::thread::JoinHandle<(bool, usize)>> = None;
    match &case.listener {
        Listener::Absent => {}
        Listener::RealTail(f) => {
            let f = resolve_filters(f, &setup.cfg);
            let a = f.args();
            let argv: Vec<&str> = a.iter().map(|s| s.as_str()).collect();
            let mut r = env.mr_spawn(&argv, &[]);
            if !bb::wait_listening(port, Duration::from_secs(20)) {
                r.kill_group();
                return inconclusive("log tail did not start listening".into());
            }
            if case.fault == Fault::KilledBeforeRun {
                r.kill();
                let _ = r.wait(Duration::from_secs(10));
                bb::wait_not_listening(port, Duration::from_secs(5));
            } else {
                tail = Some(r);
            }
        }
        Listener::Fake => {
            if case.fault != Fault::KilledBeforeRun {
                fake = Some(fake_listener(port, case.fault.clone(), stop.clone()));
            }
        }
    }
    // the run, with the fault delivered from a side thread for real tails
    let killer = match (&case.fault, tail.as_ref()) {
        (Fault::KillAfterMs(ms), Some(t)) => {
            let pid = t.pid as i32;
            let ms = *ms;
            Some(std::thread::spawn(move || {
                std::thread::sleep(Duration::from_millis(ms));
                unsafe {
                    libc::kill(pid, libc::SIGKILL);
                }
            }))
        }
        _ => None,
    };
    // a run that finished in ref_wall without a listener gets 30 times that (at least 90 s) with one
    let limit = Duration::from_secs(90).max(ref_wall * 30);
    let with_res = run_and_collect(&mut env, &setup, limit, true, case.lock_delay_ms);
    if with_res.is_err() {
        env.kill_groups();
    }
    let (with, with_out) = with_res?;
    if let Some(k) = killer {
        let _ = k.join();
    }
    // a listener that stays serves one run after the other: the next run of the same plan must
    // come out the same again (real listener, no fault, small plans only - it doubles the time)
    let mut second_run = false;
    if matches!(case.listener, Listener::RealTail(_)) && case.fault == Fault::None && case.lock_delay_ms == 0 && case.plan.late_bursts == 0 && tail.is_some() && with == reference {
        let again_res = run_and_collect(&mut env, &setup, limit, true, 0);
        if again_res.is_err() {
            env.kill_groups();
        }
        let (again, again_out) = again_res?;
        second_run = true;
        if again != reference {
            let sig = if again.code == Some(2) { "c15.fatal" } else { "c15.outcome.differs" };
            if let Some(mut t) = tail {
                t.kill_group();
            }
            return viol_obs(
                sig,
                format!("the second run under the same listener {:?} differs from the same run without a listener", case.listener),
                json!({"without": reference, "with": again, "stderr_with": again_out.stderr_str()}),
            );
        }
    }
    stop.store(true, std::sync::atomic::Ordering::SeqCst);
    let mut connected = false;
    if let Some(h) = fake {
        if let Ok((c, _n)) = h.join() {
            connected = c;
        }
    }
    if let Some(mut t) = tail {
        t.kill_group();
        let _ = t.wait(Duration::from_secs(10));
        connected = true;
    }
    if with != reference {
        let sig = if with.code == Some(2) {
            "c15.fatal"
        } else if with.statuses != reference.statuses || with.failed != reference.failed || with.code != reference.code {
            "c15.outcome.differs"
        } else {
            "c15.logs.differ"
        };
        return viol_obs(
            sig,
            format!("the run with listener {:?} and fault {:?} differs from the same run without a listener", case.listener, case.fault),
            json!({"without": reference, "with": with, "stderr_with": with_out.stderr_str()}),
        );
    }
    let mid_run = match case.fault {
        Fault::KillAfterMs(ms) => Duration::from_millis(ms) < ref_wall,
        Fault::CloseAfterBytes(_) | Fault::CloseBeforeHandshake => true,
        _ => false,
    };
    Ok(CaseInfo::new(connected && mid_run)
        .class(match &case.listener {
            Listener::Absent => "listener=absent",
            Listener::RealTail(_) => "listener=real-tail",
            Listener::Fake => "listener=fake",
        })
        .class(match case.fault {
            Fault::None => "fault=none",
            Fault::KilledBeforeRun => "fault=killed-before-run",
            Fault::KillAfterMs(_) => "fault=kill-after-delay",
            Fault::CloseAfterBytes(_) => "fault=close-after-bytes",
            Fault::CloseBeforeHandshake => "fault=close-before-handshake",
        })
        .class_if(mid_run && connected, "died-mid-run-while-connected")
        .class_if(case.plan.fail.is_some(), "plan-with-failing-task")
        .class_if(case.plan.not_exec.is_some(), "plan-with-a-command-file-lacking-the-x-bit")
        .class_if(second_run, "second-run-under-the-same-listener")
        .class_if(case.plan.unterminated != 0, "unterminated-output")
        .class_if(case.plan.split_lines != 0, "split-lines")
        .class_if(case.plan.late_bursts != 0, "late-bursts>64KiB")
        .class_if(case.lock_delay_ms >= 500, "connection-held-longer-than-the-flush-interval")
        .inv(env.invocations))
}

/// A group in which one task fails while the listener connection is contended: a quiet task has
/// written its only line seconds before, several chatty tasks queue for the connection (each
/// flush holds it for `lock_delay_ms` through the guarded point `log.stream.locked`), then one
/// task exits 1 and the rest is cancelled. What the quiet task wrote long before the failure is
/// stored with and without a listener; the cancelled chatty tasks are not compared.
#[derive(Debug, Clone, Serialize, Deserialize)]
pub struct CancelCase {
    pub chatty: usize,
    pub lock_delay_ms: u64,
    pub fail_after_ms: u64,
}

pub fn cancel_cases(thorough: bool) -> Vec<CancelCase> {
    let mut v = vec![
        CancelCase { chatty: 4, lock_delay_ms: 1500, fail_after_ms: 5000 },
        CancelCase { chatty: 3, lock_delay_ms: 2500, fail_after_ms: 6000 },
    ];
    if thorough {
        v.push(CancelCase { chatty: 12, lock_delay_ms: 900, fail_after_ms: 5000 });
        v.push(CancelCase { chatty: 2, lock_delay_ms: 4000, fail_after_ms: 7000 });
        v.push(CancelCase { chatty: 8, lock_delay_ms: 1500, fail_after_ms: 9000 });
    }
    v
}

pub fn check_c15_cancel(case: &CancelCase, w: usize) -> CheckResult {
    let mut env = Env::new(w);
    let n = case.chatty + 2;
    let cfg = gen::layered_config(&[n], &[0, 1, 2, 3, 4, 5, 6, 7]);
    env.install_config(&cfg);
    // the quiet task is started last: its first flush queues behind those of the chatty tasks
    let quiet = cfg.targets[n - 1].path.clone();
    let bad = cfg.targets[0].path.clone();
    let quiet_line = b"the only line of the quiet task\n".to_vec();
    let mut beh = BTreeMap::new();
    let mut expected = BTreeMap::new();
    for (i, t) in cfg.targets.iter().enumerate() {
        let b = if i == n - 1 {
            Behavior { sleep_ms: 200, out: vec![Step::W(quiet_line.clone())], sleep_after_ms: 30_000, ..Default::default() }
        } else if i == 0 {
            Behavior { sleep_ms: case.fail_after_ms, exit: 1, ..Default::default() }
        } else {
            let mut out = vec![];
            let mut err = vec![];
            for j in 0..300 {
                out.push(Step::W(format!("{} out {}\n", t.path, j).into_bytes()));
                out.push(Step::P(100));
                err.push(Step::W(format!("{} err {}\n", t.path, j).into_bytes()));
                err.push(Step::P(130));
            }
            Behavior { out, err, ..Default::default() }
        };
        beh.insert(("c0".to_string(), t.path.clone()), b);
        expected.insert(("stdout".to_string(), t.path.clone(), "c0".to_string()), vec![]);
    }
    bb::install_simple(&env, &cfg, &beh);
    let setup = Setup { cfg: cfg.clone(), commands: vec!["c0".to_string()], expected };
    let judged = |o: &Outcome| {
        (
            o.code,
            o.failed,
            o.statuses.get(&format!("c0|{}", bad)).cloned(),
            // (the quiet task is still asleep when its sibling fails: it is cancelled either way)
            o.statuses.get(&format!("c0|{}", quiet)).cloned(),
            o.logs.get(&format!("c0|{}|stdout", quiet)).cloned(),
        )
    };
    let (reference, ref_out) = run_and_collect(&mut env, &setup, Duration::from_secs(120), false, 0)?;
    env.kill_groups();
    if reference.failed != Some(true) {
        return inconclusive(format!("the reference run did not fail as planned: {}", ref_out.brief()));
    }
    if judged(&reference).4.as_deref() != Some(String::from_utf8_lossy(&quiet_line).as_ref()) {
        // (what a cancelled task wrote seconds before the failure is stored on the unchanged tree;
        // if that ever stops being the case without a listener, this sub-check has no reference)
        return inconclusive("without a listener the quiet task's line is not in its stored log".into());
    }
    let port = env.log_port;
    let mut tail = env.mr_spawn(&["log", "tail", "--stdout", "--stderr"], &[]);
    if !bb::wait_listening(port, Duration::from_secs(20)) {
        tail.kill_group();
        return inconclusive("log tail did not start listening".into());
    }
    let with_res = run_and_collect(&mut env, &setup, Duration::from_secs(180), true, case.lock_delay_ms);
    tail.kill_group();
    let _ = tail.wait(Duration::from_secs(10));
    env.kill_groups();
    let (with, with_out) = with_res?;
    if judged(&with) != judged(&reference) {
        return viol_obs(
            "c15.cancel.differs",
            "with a listener attached, a task that had written its output seconds before a sibling failed has a different stored log (or the run a different outcome) than without one".into(),
            json!({"without": judged(&reference), "with": judged(&with), "stderr_with": with_out.stderr_str()}),
        );
    }
    Ok(CaseInfo::new(true).class("sibling-fails-while-the-listener-connection-is-contended").inv(env.invocations))
}

// ---------------------------------------------------------------------------
// C20

#[derive(Debug, Clone, Serialize, Deserialize)]
pub struct TailCase {
    pub plan: Plan,
    pub filters: Filters,
    pub tokio_workers: usize,
    /// delay (ms) injected while a task holds the listener connection (guarded point
    /// `log.stream.locked`): flushes of other tasks then really wait for the connection
    #[serde(default)]
    pub lock_delay_ms: u64,
}

pub fn strategy_c20(max_layer: usize) -> impl Strategy<Value = TailCase> {
    (
        plan(max_layer, false),
        filters(0),
        proptest::sample::select(vec![1usize, 2, 4, 8]),
        prop_oneof![4 => Just(0u64), 4 => 3u64..40, 2 => 520u64..700],
    )
        .prop_map(|(mut plan, mut filters, mut tw, lock_delay_ms)| {
            if lock_delay_ms >= 500 {
                // everything is streamed, and a second worker thread can notice the wait
                filters.stdout = true;
                filters.stderr = true;
                filters.targets.clear();
                filters.commands.clear();
                tw = tw.max(2);
                // longer than the flush interval: every other task's flush waits for the
                // connection through at least one tick; kept to a small plan
                plan.layers = vec![plan.layers[0].min(3)];
                plan.ncmd = 1;
                plan.bursts = 0;
                plan.long_lines = 0;
                // (with a hold longer than the flush interval every flush costs more than a tick,
                // so the volume must stay small or the run takes hours)
                plan.late_bursts = 0;
            }
        // no failing task: a failure cancels the siblings in the middle of their output, and for a
        // task cut off like that neither "newline-terminated" nor "its stored log" is well defined
        // (on the unchanged tree the listener may have more or less than what was stored)
        plan.fail = None;
        plan.not_exec = None;
        plan.unterminated = 0;
        // bursts around the flush tick: a few tasks pause close to 500 ms
        for (i, t) in plan.tasks.iter_mut().enumerate() {
            if i % 4 == 0 {
                t.2 = 240 + (t.2 * 7) % 60;
            }
        }
        TailCase {
            plan,
            filters,
            tokio_workers: tw,
            lock_delay_ms,
        }
    })
}

/// Runs that are silent for several seconds while a task is still working (nothing reaches the
/// listener in between), then go on writing; a second group follows.
pub fn quiet_cases(thorough: bool) -> Vec<TailCase> {
    let gaps: &[u64] = if thorough { &[6_200, 11_000, 16_000, 31_000, 61_000] } else { &[6_200, 11_000] };
    gaps.iter()
        .map(|&g| TailCase {
            plan: Plan {
                layers: vec![2, 1],
                picks: vec![0, 1, 2, 3, 4, 5, 6, 7],
                ncmd: 1,
                tasks: vec![(3, 2, 0), (2, 2, 0), (2, 1, 0)],
                fail: None,
                unterminated: 0,
                split_lines: 0,
                bursts: 0,
                long_lines: 0,
                late_bursts: 0,
                quiet_ms: g,
                not_exec: None,
            },
            filters: Filters { stdout: true, stderr: true, targets: vec![], commands: vec![] },
            tokio_workers: 2,
            lock_delay_ms: 0,
        })
        .collect()
}

pub fn check_c20(case: &TailCase, w: usize) -> CheckResult {
    let mut env = Env::new(w);
    env.extra_env.push(("TOKIO_WORKER_THREADS".into(), case.tokio_workers.to_string()));
    let setup = install(&env, &case.plan, true);
    let f = resolve_filters(&case.filters, &setup.cfg);
    let a = f.args();
    let argv: Vec<&str> = a.iter().map(|s| s.as_str()).collect();
    let mut tail = env.mr_spawn(&argv, &[]);
    let port = env.log_port;
    if !bb::wait_listening(port, Duration::from_secs(20)) {
        tail.kill_group();
        return inconclusive("log tail did not start listening".into());
    }
    let mut args: Vec<&str> = vec!["run", "-c"];
    for c in &setup.commands {
        args.push(c);
    }
    let points: Vec<(&str, String)> = if case.lock_delay_ms > 0 {
        vec![("MRV_POINTS", format!("log.stream.locked=delay:{}", case.lock_delay_ms))]
    } else {
        vec![]
    };
    let out = env.mr_env(&args, &points, Duration::from_secs(300));
    let Some(doc) = out.json() else {
        tail.kill_group();
        return inconclusive(format!("run produced no JSON: {}", out.brief()));
    };
    let run = bb::parse_run(&doc).map_err(|e| Violation::new("c20.output", e))?;
    // sentinel client: the server serves clients one after the other, so once the marker
    // shows up everything the run sent has been printed
    let marker = "~~sentinel-marker~~";
    let sent = (|| -> std::io::Result<()> {
        let mut s = std::net::TcpStream::connect(("127.0.0.1", port))?;
        s.set_read_timeout(Some(Duration::from_secs(10)))?;
        let mut one = [0u8; 1];
        loop {
            let n = s.read(&mut one)?;
            if n == 0 || one[0] == b'\n' {
                break;
            }
        }
        s.write_all(format!("{}\n", marker).as_bytes())?;
        Ok(())
    })();
    // the listener is gone (it no longer accepts a connection although the harness never
    // stopped it): what it printed until then is all there will be
    let listener_gone = sent.is_err() && (tail.try_done() || !bb::is_listening(port));
    if let Err(e) = &sent {
        if !listener_gone {
            tail.kill_group();
            return inconclusive(format!("sentinel client failed: {}", e));
        }
    }
    let t0 = Instant::now();
    loop {
        let so = tail.stdout_so_far();
        if listener_gone || String::from_utf8_lossy(&so).contains(marker) {
            break;
        }
        if t0.elapsed() > Duration::from_secs(30) {
            tail.kill_group();
            return inconclusive("sentinel marker never appeared in the listener's output".into());
        }
        std::thread::sleep(Duration::from_millis(2));
    }
    tail.kill_group();
    let tout = tail.wait(Duration::from_secs(10));
    let text = tout.stdout;
    let cut = String::from_utf8_lossy(&text).find(marker).unwrap_or(text.len());
    let data = &text[..cut];
    // first line: the stream header written on connect
    let nl = data.iter().position(|&b| b == b'\n').map(|i| i + 1).unwrap_or(0);
    let first = &data[..nl];
    if bb::parse_header(first).is_none() {
        return viol_obs(
            "c20.stream.header",
            "the listener's output does not start with the stream header".into(),
            json!({"first_line": String::from_utf8_lossy(first)}),
        );
    }
    let (pre, blocks) = bb::parse_blocks(&data[nl..]);
    if !pre.is_empty() {
        return viol_obs(
            "c20.headerless",
            "output after the stream header contains lines that are not introduced by a block header".into(),
            json!({"lines": String::from_utf8_lossy(&pre)}),
        );
    }
    let run_path = std::path::PathBuf::from(&run.run_path);
    let mut concat: BTreeMap<(String, String, String), Vec<u8>> = BTreeMap::new();
    for b in &blocks {
        let key = (b.stream.clone(), b.target.clone(), b.command.clone());
        if !f.admits(&b.stream, &b.target, &b.command) {
            return viol("c20.filter", format!("a block for {:?} was printed although the filters {:?} do not admit it", key, f));
        }
        // every line of the block carries the identity of its writer
        for line in String::from_utf8_lossy(&b.bytes).split_inclusive('\n') {
            // a cancelled task may end in the middle of a line: only whole lines carry a full tag
            let Some(line) = line.strip_suffix('\n') else { continue };
            let parts: Vec<&str> = line.split('¦').collect();
            if parts.len() != 4 || parts[0] != b.target || parts[1] != b.command || parts[2] != b.stream {
                return viol_obs(
                    "c20.interleaved",
                    format!("a line of another task appears inside the block of {:?}", key),
                    json!({"line": line}),
                );
            }
        }
        concat.entry(key).or_default().extend_from_slice(&b.bytes);
    }
    let mut admitted_nonempty = 0;
    let mut excluded = 0;
    for (cmd, groups) in &run.results {
        for g in groups {
            for t in g.keys() {
                for stream in ["stdout", "stderr"] {
                    let key = (stream.to_string(), t.clone(), cmd.clone());
                    // a task skipped after a failure has no log file at all
                    let file = run_path.join(cmd).join(bb::sha256_hex(t.as_bytes())).join(format!("{}.zst", stream));
                    let stored = if file.exists() {
                        bb::stored_log(&run_path, cmd, t, stream).map_err(|e| Violation::new("c20.decode", e))?
                    } else {
                        vec![]
                    };
                    if f.admits(stream, t, cmd) {
                        let got = concat.get(&key).cloned().unwrap_or_default();
                        if got != stored {
                            return viol_obs(
                                "c20.reassembly",
                                format!("the blocks for {:?} do not reassemble to the stored log", key),
                                json!({"tailed": String::from_utf8_lossy(&got), "stored": String::from_utf8_lossy(&stored)}),
                            );
                        }
                        if !stored.is_empty() {
                            admitted_nonempty += 1;
                        }
                    } else {
                        excluded += 1;
                        if concat.contains_key(&key) {
                            return viol("c20.filter", format!("blocks for excluded {:?}", key));
                        }
                    }
                }
            }
        }
    }
    let max_group = run.results.first().map(|r| r.1.iter().map(|g| g.len()).max().unwrap_or(0)).unwrap_or(0);
    let streams: BTreeSet<&str> = blocks.iter().map(|b| b.stream.as_str()).collect();
    Ok(CaseInfo::new(max_group >= 4 && excluded > 0)
        .class(&format!("filter-streams={}{}", if f.stdout { "o" } else { "" }, if f.stderr { "e" } else { "" }))
        .class_if(!f.targets.is_empty(), "target-filter")
        .class_if(!f.commands.is_empty(), "command-filter")
        .class_if(max_group >= 4, "group>=4")
        .class_if(max_group >= 12, "group>=12")
        .class_if(admitted_nonempty == 0, "nothing-admitted")
        .class_if(streams.len() == 2, "both-streams-printed")
        .class_if(case.plan.split_lines != 0, "lines-split-across-the-flush-tick")
        .class_if(case.plan.bursts != 0, "bursts>8KiB-of-multibyte-lines")
        .class_if(run.failed, "a-task-failed-and-cancelled-its-siblings")
        .class_if(case.lock_delay_ms > 0, "delay-inside-the-connection-lock")
        .class_if(case.lock_delay_ms >= 500, "connection-held-longer-than-the-flush-interval")
        .class_if(case.plan.quiet_ms > 0, "run-silent-for-several-seconds")
        .class(&format!("tokio-workers={}", case.tokio_workers))
        .inv(env.invocations))
}

/// Two runs, one listener: two repositories share the listener's address (their lock addresses
/// differ), their runs are started together, the first executes command c0 and the second c1, so
/// that every (stream, target, command) belongs to exactly one of them. Whatever order the
/// listener serves the two connections in, what it prints must be header-introduced blocks whose
/// lines all come from the task named in the header, and per key the blocks reassemble to that
/// task's stored log.
pub fn check_c20_two_runs(case: &TailCase, w: usize) -> CheckResult {
    let mut e1 = Env::new(w);
    let mut e2 = Env::new(w);
    e2.log_port = e1.log_port;
    for e in [&mut e1, &mut e2] {
        e.extra_env.push(("TOKIO_WORKER_THREADS".into(), case.tokio_workers.to_string()));
    }
    let mut plan = case.plan.clone();
    plan.ncmd = 2;
    plan.fail = None;
    plan.unterminated = 0;
    plan.quiet_ms = 0;
    let setup1 = install(&e1, &plan, true);
    let _setup2 = install(&e2, &plan, true);
    let mut filters = case.filters.clone();
    filters.commands.clear();
    let f = resolve_filters(&filters, &setup1.cfg);
    let a = f.args();
    let argv: Vec<&str> = a.iter().map(|s| s.as_str()).collect();
    let mut tail = e1.mr_spawn(&argv, &[]);
    let port = e1.log_port;
    if !bb::wait_listening(port, Duration::from_secs(20)) {
        tail.kill_group();
        return inconclusive("log tail did not start listening".into());
    }
    let r1 = e1.mr_spawn(&["run", "-c", "c0"], &[]);
    let r2 = e2.mr_spawn(&["run", "-c", "c1"], &[]);
    let o1 = r1.wait(Duration::from_secs(300));
    let o2 = r2.wait(Duration::from_secs(300));
    let (Some(d1), Some(d2)) = (o1.json(), o2.json()) else {
        tail.kill_group();
        return inconclusive(format!("a run produced no JSON: {} / {}", o1.brief(), o2.brief()));
    };
    let run1 = bb::parse_run(&d1).map_err(|e| Violation::new("c20.output", e))?;
    let run2 = bb::parse_run(&d2).map_err(|e| Violation::new("c20.output", e))?;
    let marker = "~~sentinel-marker~~";
    let sent = (|| -> std::io::Result<()> {
        let mut s = std::net::TcpStream::connect(("127.0.0.1", port))?;
        s.set_read_timeout(Some(Duration::from_secs(20)))?;
        let mut one = [0u8; 1];
        loop {
            let n = s.read(&mut one)?;
            if n == 0 || one[0] == b'\n' {
                break;
            }
        }
        s.write_all(format!("{}\n", marker).as_bytes())?;
        Ok(())
    })();
    if let Err(e) = &sent {
        tail.kill_group();
        return inconclusive(format!("sentinel client failed: {}", e));
    }
    let t0 = Instant::now();
    loop {
        let so = tail.stdout_so_far();
        if String::from_utf8_lossy(&so).contains(marker) {
            break;
        }
        if t0.elapsed() > Duration::from_secs(60) {
            tail.kill_group();
            return inconclusive("sentinel marker never appeared in the listener's output".into());
        }
        std::thread::sleep(Duration::from_millis(2));
    }
    tail.kill_group();
    let tout = tail.wait(Duration::from_secs(10));
    let text = tout.stdout;
    let cut = String::from_utf8_lossy(&text).find(marker).unwrap_or(text.len());
    let data = &text[..cut];
    let nl = data.iter().position(|&b| b == b'\n').map(|i| i + 1).unwrap_or(0);
    let first = &data[..nl];
    let Some(stream_header) = bb::parse_header(first) else {
        return viol_obs(
            "c20.stream.header",
            "the listener's output does not start with the stream header".into(),
            json!({"first_line": String::from_utf8_lossy(first)}),
        );
    };
    let (pre, blocks) = bb::parse_blocks(&data[nl..]);
    if !pre.is_empty() {
        return viol_obs("c20.headerless", "output after the stream header contains lines that are not introduced by a block header".into(), json!({"lines": String::from_utf8_lossy(&pre)}));
    }
    let mut concat: BTreeMap<(String, String, String), Vec<u8>> = BTreeMap::new();
    let mut stream_headers = 1;
    for b in &blocks {
        let key = (b.stream.clone(), b.target.clone(), b.command.clone());
        // (a stream header lists the filter's targets and commands in an order of the client's own choosing)
        let norm = |k: &(String, String, String)| -> Vec<Vec<String>> {
            [&k.0, &k.1, &k.2]
                .iter()
                .map(|s| {
                    let mut v: Vec<String> = s.split(", ").map(String::from).collect();
                    v.sort();
                    v
                })
                .collect()
        };
        if norm(&key) == norm(&stream_header) {
            // the second client's (and the sentinel's) stream header; it introduces nothing of its own
            stream_headers += 1;
            if !b.bytes.is_empty() {
                return viol_obs("c20.two-runs.lines-under-stream-header", "task output follows a stream header without a block header of its own".into(), json!({"lines": String::from_utf8_lossy(&b.bytes)}));
            }
            continue;
        }
        if !f.admits(&b.stream, &b.target, &b.command) {
            return viol_obs("c20.filter", format!("a block for {:?} was printed although the filters {:?} do not admit it", key, f), json!({"stream_header": format!("{:?}", stream_header), "first": String::from_utf8_lossy(first)}));
        }
        for line in String::from_utf8_lossy(&b.bytes).split_inclusive('\n') {
            let Some(line) = line.strip_suffix('\n') else { continue };
            let parts: Vec<&str> = line.split('¦').collect();
            if parts.len() != 4 || parts[0] != b.target || parts[1] != b.command || parts[2] != b.stream {
                return viol_obs(
                    "c20.interleaved",
                    format!("two runs on one listener: a line of another task appears inside the block of {:?}", key),
                    json!({"line": line}),
                );
            }
        }
        concat.entry(key).or_default().extend_from_slice(&b.bytes);
    }
    let mut admitted_nonempty = 0;
    for run in [&run1, &run2] {
        let run_path = std::path::PathBuf::from(&run.run_path);
        for (cmd, groups) in &run.results {
            for g in groups {
                for t in g.keys() {
                    for stream in ["stdout", "stderr"] {
                        let key = (stream.to_string(), t.clone(), cmd.clone());
                        let file = run_path.join(cmd).join(bb::sha256_hex(t.as_bytes())).join(format!("{}.zst", stream));
                        let stored = if file.exists() { bb::stored_log(&run_path, cmd, t, stream).map_err(|e| Violation::new("c20.decode", e))? } else { vec![] };
                        if f.admits(stream, t, cmd) {
                            let got = concat.get(&key).cloned().unwrap_or_default();
                            if got != stored {
                                return viol_obs(
                                    "c20.reassembly",
                                    format!("two runs on one listener: the blocks for {:?} do not reassemble to the stored log", key),
                                    json!({"tailed_len": got.len(), "stored_len": stored.len()}),
                                );
                            }
                            if !stored.is_empty() {
                                admitted_nonempty += 1;
                            }
                        } else if concat.contains_key(&key) {
                            return viol("c20.filter", format!("blocks for excluded {:?}", key));
                        }
                    }
                }
            }
        }
    }
    Ok(CaseInfo::new(admitted_nonempty >= 4)
        .class("two-runs-one-listener")
        .class_if(stream_headers >= 2, "second-stream-header-seen")
        .class_if(!f.targets.is_empty(), "target-filter")
        .class(&format!("tokio-workers={}", case.tokio_workers))
        .inv(e1.invocations + e2.invocations))
}

/// Plans for `check_c20_two_runs`: chatty (60-250 ms between lines), so that the two runs overlap
/// for a second or more, without connection holds.
pub fn strategy_c20_two() -> impl Strategy<Value = TailCase> {
    (plan(4, true), filters(0), proptest::sample::select(vec![1usize, 2, 4])).prop_map(|(mut plan, filters, tw)| {
        plan.layers.truncate(2);
        plan.long_lines = 0;
        TailCase { plan, filters, tokio_workers: tw, lock_delay_ms: 0 }
    })
}

pub fn run_c15(ctx: &mut Ctx) {
    ctx.hang_limit = Duration::from_secs(400);
    ctx.shrink_budget = Duration::from_secs(40);
    ctx.rule = "a run plan (1-3 layered groups x 1-3 targets x 1-2 commands, chatty tasks writing 0-5 lines per stream with 60-250 ms pauses, lines split by a 620 ms pause, final lines without newline, 20% with one failing task) executed twice in the same repository: \
without a listener and with one of {absent, real `monorail log tail` with generated filters, harness-owned fake listener} under a fault {none, killed before the run, killed/closed after 20-1200 ms, \
closed after 1-600 received bytes, accepted then closed before the handshake}. oracle (differential): equal exit status, failed flag, (status, code) per (command,target) and byte-equal decoded stored logs. \
non-trivial = the listener was connected and died in the middle of the run; distinct by SHA-256"
        .to_string();
    ctx.assumptions = vec!["a listener that stays connected but stops reading is not generated (not in the quantifier)".into()];
    let n = ctx.n(80, 1500);
    ctx.drive("pair", strategy_c15, n, check_c15);
    ctx.drive_all(
        "listener-follows-members-behind-a-not-executable-one",
        notexec_cases(ctx.thorough()),
        "one group whose first member's command file lacks the x bit, a listener that follows the second and/or the last member",
        check_c15,
    );
    ctx.drive_all(
        "failure-under-contention",
        cancel_cases(ctx.thorough()),
        "a task fails while 3-16 chatty siblings queue for the listener connection (each flush holds it 0.9-4 s); judged: exit status, failed flag, the failing task's status, and status and stored log of a task that wrote its only line seconds earlier and is asleep when the sibling fails",
        check_c15_cancel,
    );
}

pub fn run_c20(ctx: &mut Ctx) {
    ctx.hang_limit = Duration::from_secs(400);
    ctx.shrink_budget = Duration::from_secs(40);
    ctx.rule = "a run with up to 3 layered groups of up to 8 (quick) / 24 (thorough) concurrently writing tasks, both streams, newline-terminated UTF-8 lines tagged target¦command¦stream¦seq, bursts and pauses around the \
flush tick, some lines written in two parts 620 ms apart, tokio worker threads in {1,2,4,8}, under a real `monorail log tail` with stream/target/command filters. readiness by polling /proc/net/tcp, completion by a sentinel client connected after the run. \
oracle: output = stream header, then header-introduced blocks; every line's tag agrees with its block header; per (stream,target,command) the concatenated blocks equal the stored log; blocks only for admitted keys and for every \
admitted non-empty log. non-trivial = a group of >= 4 tasks and a filter that excludes something; distinct by SHA-256"
        .to_string();
    ctx.assumptions = vec!["task output is newline-terminated text without carriage returns (as the property states)".into()];
    let n = ctx.n(60, 1200);
    let max_layer = if ctx.thorough() { 24 } else { 8 };
    ctx.drive("tail", || strategy_c20(max_layer), n, check_c20);
    let n2 = ctx.n(12, 200);
    ctx.drive("two-runs-one-listener", strategy_c20_two, n2, check_c20_two_runs);
    ctx.drive_all(
        "quiet-period",
        quiet_cases(ctx.thorough()),
        "runs whose only working task is silent for 6.2 / 11 s (thorough: up to 61 s) between two lines, followed by a second group",
        check_c20,
    );
}

pub fn replay_c15(ctx: &Ctx, label: &str, case: Value) -> Result<(), String> {
    if label.contains("failure-under-contention") {
        let c: CancelCase = serde_json::from_value(case).map_err(|e| e.to_string())?;
        let r = check_c15_cancel(&c, 0);
        ctx.replay_one(label, &c, r);
        return Ok(());
    }
    let c: Case = serde_json::from_value(case).map_err(|e| e.to_string())?;
    let r = check_c15(&c, 0);
    ctx.replay_one(label, &c, r);
    Ok(())
}
pub fn replay_c20(ctx: &Ctx, label: &str, case: Value) -> Result<(), String> {
    let c: TailCase = serde_json::from_value(case).map_err(|e| e.to_string())?;
    let r = if label.contains("two-runs") { check_c20_two_runs(&c, 0) } else { check_c20(&c, 0) };
    ctx.replay_one(label, &c, r);
    Ok(())
}
