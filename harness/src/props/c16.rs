//! C16 - all members of a target group execute concurrently.

use crate::bb::{self, Behavior, Env};
use crate::gen;
use crate::model::ConfigSpec;
use crate::props::c01;
use crate::runner::*;
use proptest::collection::vec;
use proptest::prelude::*;
use serde::{Deserialize, Serialize};
use serde_json::{json, Value};
use std::collections::BTreeMap;

#[derive(Debug, Clone, Serialize, Deserialize)]
pub struct Case {
    pub config: ConfigSpec,
    pub ncmd: usize,
    /// index of the command whose executables rendezvous
    pub barrier_cmd: usize,
    /// which group (by rank among groups of size >= 2, largest first) gets the barrier
    pub group_pick: u16,
    pub tokio_workers: usize,
    /// a `log tail --stdout --stderr` listener is attached during the run
    #[serde(default)]
    pub listener: bool,
    /// every target resolves each command to one shared script through `commands.definitions`
    #[serde(default)]
    pub shared_exe: bool,
    /// an earlier run of the same commands in the same repository precedes the rendezvous run:
    /// 0 none, 1 some members of the group fail in it (mask), 2 all succeed, 3 all members fail
    #[serde(default)]
    pub history: u8,
    #[serde(default)]
    pub history_mask: u32,
    /// soft RLIMIT_NOFILE of the run, in half descriptors per member of the widest group of the plan, plus 24 (0: inherited)
    #[serde(default)]
    pub nofile_per_member: u64,
    /// every member of the group prints this many bytes before it starts waiting for the others
    #[serde(default)]
    pub early_output: u64,
    /// one more member of the group does not define the rendezvous command at all (status
    /// `undefined`); it takes no part in the rendezvous
    #[serde(default)]
    pub undefined_member: bool,
    /// the first member of the group gets about 100 KiB of arguments from its base argmap
    /// (more than a pipe buffer, should they travel through one)
    #[serde(default)]
    pub big_args: bool,
    /// the run is confined to this many CPUs (0: all), as in a 1-2 vCPU container
    #[serde(default)]
    pub cpus: u8,
    /// every third member of the group only announces its start and exits at once; the others
    /// still wait for everybody's start
    #[serde(default)]
    pub quick_members: bool,
    /// the members of the group are named with -t and the run is made with --deps (they still
    /// form one group; what they depend on is pulled in)
    #[serde(default)]
    pub named_deps: bool,
    /// non-zero: a checkpoint exists and only the targets selected by this mask (bit i%32 of
    /// target i) have changed; the groups are the pruned ones `analyze` then reports
    #[serde(default)]
    pub changed_mask: u32,
    /// two of every three targets list the same `uses` entry that lies in no target (a shared
    /// schema directory): no dependency between them follows from that
    #[serde(default)]
    pub shared_outside_uses: bool,
}

pub fn strategy(max_n: usize) -> impl Strategy<Value = Case> {
    (
        prop_oneof![
            4 => 2usize..=max_n.min(24),
            2 => 31usize..=34,
            1 => 63usize..=66,
            1 => 2usize..=max_n,
        ],
        0usize..=2,
        0usize..=2,
        vec(1usize..=3, 2),
        vec(any::<u16>(), 16),
        1usize..=3,
        any::<u16>(),
        any::<u16>(),
        proptest::sample::select(vec![1usize, 2, 4, 16]),
        proptest::bool::weighted(0.3),
        proptest::bool::weighted(0.3),
        (
            prop_oneof![5 => Just(0u8), 3 => Just(1u8), 1 => Just(2u8), 1 => Just(3u8)],
            any::<u32>(),
            prop_oneof![3 => Just(0u64), 1 => Just(13u64), 1 => Just(14u64)],
            prop_oneof![3 => Just(0u64), 1 => Just(70_000u64), 1 => Just(200_000u64)],
        ),
    )
        .prop_map(|(n, before, after, small, picks, ncmd, bc, gp, tw, listener, shared_exe, (history, history_mask, nofile_per_member, early_output))| {
            let mut layers = vec![];
            for i in 0..before {
                layers.push(small[i % small.len()]);
            }
            layers.push(n);
            for i in 0..after {
                layers.push(small[(i + 1) % small.len()]);
            }
            let config = gen::layered_config(&layers, &picks);
            Case {
                config,
                ncmd,
                barrier_cmd: pick(bc, ncmd),
                group_pick: gp,
                tokio_workers: tw,
                listener,
                shared_exe,
                history,
                history_mask,
                // only where the wide layer dominates what the process needs anyway
                nofile_per_member: if n >= 24 && !listener { nofile_per_member } else { 0 },
                // more than a pipe buffer (64 KiB) per member; kept to small groups
                // (and 100 KB per member in one of eight wide groups: megabytes arrive while the
                // group is still being started)
                early_output: if n <= 12 {
                    early_output
                } else if gp % 8 == 5 {
                    100_000
                } else {
                    0
                },
                undefined_member: gp % 4 == 0,
                big_args: gp % 5 == 1,
                quick_members: gp % 3 == 2,
                named_deps: gp % 4 == 1,
                // a quarter of the cases: roughly two thirds of the targets changed, scattered
                changed_mask: if gp % 4 == 2 { history_mask | history_mask.rotate_left(11) | 1 } else { 0 },
                shared_outside_uses: gp % 3 == 0,
                cpus: if n <= 16 && !listener {
                    match gp % 7 {
                        3 => 1,
                        5 => 2,
                        _ => 0,
                    }
                } else {
                    0
                },
            }
        })
}

fn attempt(case: &Case, w: usize, timeout_ms: u64) -> Result<(bool, CaseInfo, Value), CheckError> {
    let mut cfg_owned = case.config.clone();
    if case.shared_outside_uses {
        for (i, t) in cfg_owned.targets.iter_mut().enumerate() {
            if i % 3 != 2 {
                t.uses.push("shared/schema".into());
            }
        }
    }
    if case.shared_exe {
        for t in cfg_owned.targets.iter_mut() {
            for k in 0..case.ncmd {
                t.command_defs.insert(format!("c{}", k), format!("tools/shared/c{}.sh", k));
            }
        }
    }
    let cfg = &cfg_owned;
    let mut env = Env::new(w);
    env.extra_env.push(("TOKIO_WORKER_THREADS".into(), case.tokio_workers.to_string()));
    env.install_config(cfg);
    if case.cpus > 0 {
        env.cpus = Some(case.cpus as usize);
    }
    if case.changed_mask != 0 {
        if let Err(e) = bb::commit_all_and_checkpoint(&mut env) {
            return inconclusive(e);
        }
        for (i, t) in cfg.targets.iter().enumerate() {
            if case.changed_mask >> (i % 32) & 1 == 1 {
                env.write_file(&format!("{}/changed-since-checkpoint.txt", t.path.trim_end_matches('/')), b"new\n");
            }
        }
    }
    let an = env.mr(&["analyze", "--target-groups"]);
    let Some(av) = an.json() else {
        return inconclusive(format!("analyze failed: {}", an.brief()));
    };
    let ap = c01::parse_analyze(&av).map_err(|e| Violation::new("c16.analyze", e))?;
    let groups = ap.groups.unwrap_or_default();
    let mut big: Vec<(usize, &Vec<String>)> = groups.iter().enumerate().filter(|(_, g)| g.len() >= 2).collect();
    if big.is_empty() {
        return Ok((false, CaseInfo::new(false).class("no-group-of-2").inv(env.invocations), Value::Null));
    }
    big.sort_by_key(|(i, g)| (usize::MAX - g.len(), *i));
    let (gi, members) = big[pick(case.group_pick, big.len().min(2))];
    let n = members.len();
    if case.nofile_per_member > 0 {
        // a modest descriptor limit. Measured on the unchanged tree: a group of 34 needs 181-185
        // descriptors (about 5 per running task plus a dozen); the limit leaves 6.5 or 7 per
        // member plus 24
        let widest = groups.iter().map(|g| g.len()).max().unwrap_or(n);
        env.nofile = Some(case.nofile_per_member * widest as u64 / 2 + 24);
    }
    let commands: Vec<String> = (0..case.ncmd).map(|i| format!("c{}", i)).collect();
    let undefined: Option<String> = if case.undefined_member && !case.shared_exe && n >= 3 { Some(members[n - 1].clone()) } else { None };
    let n_wait = n - undefined.is_some() as usize;
    let mut beh = BTreeMap::new();
    for (ci, c) in commands.iter().enumerate() {
        for t in &cfg.targets {
            if ci == case.barrier_cmd && Some(&t.path) == undefined.as_ref() {
                continue; // no command file: undefined
            }
            let mut b = Behavior::default();
            if ci == case.barrier_cmd && members.contains(&t.path) {
                let mi = members.iter().position(|m| m == &t.path).unwrap_or(0);
                // (a time-out of 0 means: announce the start, do not wait)
                let quick = case.quick_members && mi % 3 == 1;
                b.barrier = Some((format!("g{}", gi), n_wait, if quick { 0 } else { timeout_ms }));
                b.pre_out_bytes = case.early_output;
            }
            beh.insert((c.clone(), t.path.clone()), b);
        }
    }
    let install = |env: &Env, beh: &BTreeMap<(String, String), Behavior>| {
        if case.shared_exe {
            let mut plan = BTreeMap::new();
            for ((c, t), b) in beh {
                let f = format!("tools/shared/{}.sh", c);
                env.install_command(&f, true);
                plan.insert((f, t.clone()), b.clone());
            }
            env.set_plan(&plan);
        } else {
            bb::install_simple(env, cfg, beh);
        }
    };
    let mut args: Vec<&str> = vec!["run", "-c"];
    for c in &commands {
        args.push(c);
    }
    if case.named_deps {
        args.push("-t");
        for m in members.iter() {
            args.push(m);
        }
        args.push("--deps");
    }
    let mut history_failures = 0;
    if case.history != 0 {
        // an earlier run without any rendezvous; what it recorded must not change how the
        // next run schedules the group
        let mut hb = BTreeMap::new();
        for (ci, c) in commands.iter().enumerate() {
            for t in &cfg.targets {
                if ci == case.barrier_cmd && Some(&t.path) == undefined.as_ref() {
                    continue;
                }
                let mut b = Behavior::default();
                if ci == case.barrier_cmd {
                    if let Some(k) = members.iter().position(|m| m == &t.path) {
                        let fails = match case.history {
                            1 => case.history_mask >> (k % 32) & 1 == 1,
                            3 => true,
                            _ => false,
                        };
                        if fails {
                            b.exit = 1 + (k % 7) as i32;
                            history_failures += 1;
                        }
                    }
                }
                hb.insert((c.clone(), t.path.clone()), b);
            }
        }
        install(&env, &hb);
        let o = env.mr(&args);
        if o.json().is_none() {
            return inconclusive(format!("the earlier run produced no JSON: {}", o.brief()));
        }
        env.clear_traces();
    }
    install(&env, &beh);
    if case.big_args && !case.shared_exe {
        let t = cfg.target(&members[0]).expect("member");
        let args: Vec<String> = (0..2500).map(|i| format!("generated/path/to/some/input/file-number-{:05}.txt", i)).collect();
        let mut m = serde_json::Map::new();
        m.insert(commands[case.barrier_cmd].clone(), json!(args));
        env.write_file(&format!("{}/base.json", t.argmaps_dir()), serde_json::to_string(&Value::Object(m)).unwrap().as_bytes());
    }
    env.default_timeout = std::time::Duration::from_millis(timeout_ms * 3 + 60_000);
    let mut tail = None;
    if case.listener {
        let mut t = env.mr_spawn(&["log", "tail", "--stdout", "--stderr"], &[]);
        if !bb::wait_listening(env.log_port, std::time::Duration::from_secs(20)) {
            t.kill_group();
            return inconclusive("log tail did not start listening".into());
        }
        tail = Some(t);
    }
    let out = env.mr(&args);
    if let Some(mut t) = tail {
        t.kill_group();
        let _ = t.wait(std::time::Duration::from_secs(10));
    }
    let traces = env.traces();
    let timeouts: Vec<String> = traces.iter().filter(|t| t.barrier_timeout).map(|t| env.rel(&t.cwd)).collect();
    let position = if gi == 0 { "first" } else if gi + 1 == groups.len() { "last" } else { "middle" };
    let info = CaseInfo::new(n >= 3)
        .class(&format!(
            "n={}",
            match n {
                2 => "2",
                3..=7 => "3-7",
                8..=23 => "8-23",
                24..=32 => "24-32",
                33..=64 => "33-64",
                _ => "65+",
            }
        ))
        .class(&format!("position={}", position))
        .class(&format!("command#{}", case.barrier_cmd))
        .class(&format!("tokio-workers={}", case.tokio_workers))
        .class_if(case.listener, "tail-listener-attached")
        .class_if(case.shared_exe, "shared-executable")
        .class_if(case.history != 0, "after-an-earlier-run")
        .class_if(case.nofile_per_member > 0, "modest-open-files-limit")
        .class_if(case.cpus > 0, "confined-to-1-2-cpus")
        .class_if(case.quick_members, "a-third-of-the-members-exit-at-once")
        .class_if(case.named_deps, "members-named-with--t-and---deps")
        .class_if(case.changed_mask != 0, "checkpoint-and-scattered-changes(pruned-groups)")
        .class_if(case.shared_outside_uses, "members-share-a-uses-path-outside-every-target")
        .class_if(case.early_output > 0, "members-print-more-than-a-pipe-buffer-first")
        .class_if(undefined.is_some(), "one-member-does-not-define-the-command")
        .class_if(case.big_args && !case.shared_exe, "one-member-gets-100KiB-of-arguments")
        .class_if(history_failures > 0 && history_failures < n, "earlier-run-failed-for-part-of-the-group")
        .inv(env.invocations);
    let obs = json!({"group": members, "timeouts": timeouts, "run": out.brief()});
    if case.nofile_per_member > 0 && format!("{}", obs).contains("Too many open files") {
        return inconclusive("the descriptor limit chosen for this case was too small for monorail itself".into());
    }
    if out.timed_out || !timeouts.is_empty() {
        return Ok((true, info, obs));
    }
    let Some(doc) = out.json() else {
        if (out.stderr_str().contains("Lock acquisition failed") || out.stderr_str().contains("Text file busy")) {
            return inconclusive(format!("run produced no JSON: {}", out.brief()));
        }
        return viol_obs("c16.failed", "the rendezvous run ended without a result".into(), obs);
    };
    let run = bb::parse_run(&doc).map_err(|e| Violation::new("c16.output", e))?;
    if run.failed || out.code != Some(0) {
        return viol_obs("c16.failed", "the rendezvous run did not succeed".into(), obs);
    }
    // distinct members: a child orphaned by the failing earlier run may still leave a late trace
    let started = traces
        .iter()
        .filter_map(|t| {
            let k = bb::trace_key(&env, t);
            (k.0 == commands[case.barrier_cmd] && members.contains(&k.1)).then_some(k.1)
        })
        .collect::<std::collections::BTreeSet<_>>()
        .len();
    if started != n_wait {
        return viol_obs("c16.members", format!("{} of {} group members that define the command were started", started, n_wait), obs);
    }
    Ok((false, info, obs))
}

pub fn check(case: &Case, w: usize) -> CheckResult {
    let (suspect, info, obs) = attempt(case, w, 20_000)?;
    if !suspect {
        return Ok(info);
    }
    // confirmation with a doubled limit: a serialising scheduler blocks forever, a
    // correct one needs milliseconds
    let (again, _info2, obs2) = attempt(case, w, 40_000)?;
    if again {
        return viol_obs(
            "c16.rendezvous.timeout",
            "members of one target group waited for each other's start and timed out (20 s, then 40 s)".into(),
            json!({"first": obs, "second": obs2}),
        );
    }
    inconclusive("a rendezvous timed out once but completed on the confirmation run".into())
}

pub fn run(ctx: &mut Ctx) {
    ctx.hang_limit = std::time::Duration::from_secs(600);
    ctx.shrink_budget = std::time::Duration::from_secs(1);
    ctx.rule = "layered configuration with one layer of n mutually independent targets (n in 2..24, and the size boundaries 31-34 and 63-66; thorough: up to 130) placed first / in the middle / last, \
1-3 commands, tokio worker threads in {1,2,4,16}, 30% with a `log tail` listener attached, a quarter of the runs naming the group's members with -t and --deps, some small groups with the whole run confined to 1 or 2 CPUs (sched_setaffinity, as in a small container), 30% with one script shared by all targets through commands.definitions; half of the cases after an earlier run of the same commands (all succeeding, all group members failing, or a random part of the group failing); the groups are read from `analyze --target-groups`, one group of size >= 2 is chosen and all its members run the helper in \
barrier mode (wait until all members have started; in a third of the cases every third member only announces its start and exits at once) under the 1st-3rd command. oracle: run exits 0, every member started, no barrier time-out (20 s, confirmed with 40 s). \
non-trivial = group size >= 3; distinct by SHA-256"
        .to_string();
    ctx.assumptions = vec!["'forever' is approximated by 20 s + 40 s for a rendezvous that takes milliseconds".into()];
    let n = ctx.n(150, 2000);
    let max_n = if ctx.thorough() { 130 } else { 24 };
    ctx.drive("run", || strategy(max_n), n, check);
}

pub fn replay(ctx: &Ctx, label: &str, case: Value) -> Result<(), String> {
    let c: Case = serde_json::from_value(case).map_err(|e| e.to_string())?;
    let r = check(&c, 0);
    ctx.replay_one(label, &c, r);
    Ok(())
}
