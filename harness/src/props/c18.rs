//! C18 - configuration meaning depends only on its JSON value.

use crate::bb::{self, Env};
use crate::gen::{self, CycleMode};
use crate::jsonw::{self, Escapes, Layout, PadPos, Ws};
use crate::model::{ConfigSpec, TargetSpec};
use crate::runner::*;
use proptest::collection::vec;
use proptest::prelude::*;
use serde::{Deserialize, Serialize};
use serde_json::{json, Value};

#[derive(Debug, Clone, Serialize, Deserialize)]
pub struct Case {
    pub config: ConfigSpec,
    pub layouts: Vec<Layout>,
}

pub fn layout() -> impl Strategy<Value = Layout> {
    (
        prop_oneof![Just(Ws::Compact), (1usize..=4).prop_map(Ws::Pretty), any::<u64>().prop_map(|s| Ws::Random(s | 1))],
        prop_oneof![Just(0u64), any::<u64>()],
        prop_oneof![3 => Just(Escapes::None), 1 => Just(Escapes::NonAscii), 1 => Just(Escapes::SomeAscii)],
        prop_oneof![
            3 => Just(0usize),
            1 => Just(4000usize),
            2 => prop_oneof![Just(8191usize), Just(8192), Just(8193)],
            2 => Just(16384usize),
            1 => Just(65536usize),
            1 => Just(200_000usize),
            1 => 8000usize..9000,
        ],
        prop_oneof![Just(PadPos::Before), Just(PadPos::Inside), Just(PadPos::After)],
        proptest::option::weighted(
            0.35,
            (
                prop_oneof![Just(1024usize), Just(4096), Just(8192), Just(16384), Just(32768), Just(65536)],
                -2i32..=1,
                any::<u16>(),
            ),
        ),
    )
        .prop_map(|(ws, key_seed, escapes, pad_to, pad_pos, align)| Layout {
            ws,
            key_seed,
            // an aligned character must stay raw
            escapes: if align.is_some() { Escapes::None } else { escapes },
            pad_to: if align.is_some() { 0 } else { pad_to },
            pad_pos,
            align_non_ascii: align,
        })
}

/// A configuration with many targets (a chain/fan of uses), to get large documents.
pub fn big_config(n: usize, picks: &[u16]) -> ConfigSpec {
    let mut targets = vec![];
    for i in 0..n {
        let mut t = TargetSpec::new(&format!("pkg/t{:03}", i));
        if i > 0 {
            let a = pick(picks[i % picks.len()], i);
            t.uses.push(format!("pkg/t{:03}", a));
            if i % 3 == 0 {
                let b = pick(picks[(i * 7) % picks.len()], i);
                let u = format!("pkg/t{:03}/src", b);
                t.uses.push(u);
            }
        }
        if i % 5 == 0 {
            t.ignores.push(format!("pkg/t{:03}/README.md", i));
        }
        targets.push(t);
    }
    let mut c = ConfigSpec {
        targets,
        ..Default::default()
    };
    c.sequences.insert("größe".into(), vec!["build".into(), "prüfen".into()]);
    c
}

pub fn strategy() -> impl Strategy<Value = Case> {
    let small = gen::raw_config(8, 3, 2).prop_map(|raw| {
        let mut c = gen::build_config(&raw, CycleMode::Acyclic);
        c.sequences.insert("dev".into(), vec!["build".into(), "test é".into()]);
        // several named entries in every name-keyed object, so that key order can matter
        c.sequences.insert("check".into(), vec!["lint".into(), "zeta".into()]);
        c.sequences.insert("release".into(), vec!["build".into(), "lint".into(), "zeta".into()]);
        c.sequences.insert("all".into(), vec!["alpha".into()]);
        for t in c.targets.iter_mut().take(2) {
            t.command_defs.insert("build".into(), "tools/c18/build-impl.sh".into());
            t.command_defs.insert("zeta".into(), "tools/c18/zeta.sh".into());
            t.command_defs.insert("lint".into(), "tools/c18/lint.sh".into());
            t.command_defs.insert("alpha".into(), String::new());
        }
        c.max_retained_runs = Some(7);
        c
    });
    let big = (20usize..300, vec(any::<u16>(), 16)).prop_map(|(n, picks)| big_config(n, &picks));
    (prop_oneof![3 => small, 2 => big], vec(layout(), 4..8)).prop_map(|(config, layouts)| Case { config, layouts })
}

const BASE_APIS: [&[&str]; 3] = [&["config", "show"], &["target", "show", "-g"], &["analyze", "--target-groups"]];
/// for small configurations: APIs that look names up in `sequences` and `commands.definitions`
const LOOKUP_APIS: [&[&str]; 6] = [
    // first: what the previous serialisation's last run recorded must still be readable
    &["result", "show"],
    &["log", "show", "--stdout"],
    &["target", "show", "--commands"],
    &["run", "-s", "check"],
    &["run", "-s", "release"],
    &["run", "-c", "build", "zeta", "alpha"],
];

fn apis(cfg: &ConfigSpec) -> Vec<&'static [&'static str]> {
    let mut v: Vec<&'static [&'static str]> = BASE_APIS.to_vec();
    if cfg.sequences.contains_key("check") {
        v.extend(LOOKUP_APIS.iter().copied());
    }
    v
}

/// What a `run` decided: flag and per-command, per-group statuses (paths, ids and times left out).
fn project_run(v: &Value) -> Value {
    let n = bb::normalize_run_doc(v);
    json!({"failed": n.get("failed"), "results": n.get("results"), "checkpointed": n.get("checkpointed")})
}

fn observe(env: &mut Env, apis: &[&'static [&'static str]]) -> Vec<(Option<i32>, Option<Value>, String)> {
    let mut v = vec![];
    for api in apis {
        let o = env.mr(api);
        let j = if api[0] == "log" {
            // plain text: headers and log bytes
            Some(Value::String(o.stdout_str()))
        } else {
            o.json().map(|j| if api[0] == "run" || api[0] == "result" { project_run(&j) } else { bb::strip_timestamp(&j) })
        };
        v.push((o.code, j, o.stderr_str()));
    }
    v
}

/// Spell out every documented optional field with the value it has by default, so that each
/// of them (strings, numbers, nested objects) takes part in the re-serialisations.
fn enrich(value: &mut Value) {
    let Some(o) = value.as_object_mut() else { return };
    o.entry("change_provider").or_insert(json!({"use": "git"}));
    o.entry("out_dir").or_insert(json!("monorail-out"));
    if let Some(server) = o.get_mut("server").and_then(|s| s.as_object_mut()) {
        for k in ["log", "lock"] {
            if let Some(s) = server.get_mut(k).and_then(|s| s.as_object_mut()) {
                s.entry("host").or_insert(json!("127.0.0.1"));
                s.entry("bind_timeout_ms").or_insert(json!(1000));
            }
        }
    }
    if let Some(ts) = o.get_mut("targets").and_then(|t| t.as_array_mut()) {
        for t in ts.iter_mut().take(2) {
            if let Some(t) = t.as_object_mut() {
                let path = t.get("path").and_then(|p| p.as_str()).unwrap_or("").trim_end_matches('/').to_string();
                t.entry("argmaps").or_insert(json!({
                    "path": format!("{}/monorail/argmap", path),
                    "definitions": {"zulu": {"path": "tools/c18/zulu.json"}, "extra": {"path": "tools/c18/extra.json"}, "base": {"path": "tools/c18/base.json"}},
                }));
            }
        }
    }
}

pub fn check(case: &Case, w: usize) -> CheckResult {
    let mut env = Env::new(w);
    env.install_config(&case.config);
    let mut value = env.with_ports(&case.config).to_value();
    if case.config.sequences.contains_key("check") {
        enrich(&mut value);
    }
    // sanity: the value is a valid configuration (independently of how files are read)
    let all = case.config.target_paths();
    let valid = monorail::verif::index_groups(&serde_json::to_string(&value).unwrap(), &all, &env.repo);
    if let Err(e) = valid {
        return inconclusive(format!("generated configuration is not valid: {}", e));
    }
    let apis = apis(&case.config);
    if apis.len() > BASE_APIS.len() {
        for f in ["tools/c18/build-impl.sh", "tools/c18/zeta.sh", "tools/c18/lint.sh"] {
            env.install_command(f, true);
        }
    }
    let compact = jsonw::write(&value, &Layout::compact());
    env.write_raw_config(&compact);
    if apis.len() > BASE_APIS.len() {
        // a first run, so that `result show` / `log show` have something to show from the start
        let first = env.mr(&["run", "-c", "build", "zeta", "alpha"]);
        if first.json().is_none() {
            // (not one of the judged observations: without it there is nothing to show)
            return inconclusive(format!("the preparatory run produced no result: {}", first.brief()));
        }
    }
    let reference = observe(&mut env, &apis);
    for (i, api) in apis.iter().enumerate() {
        if reference[i].0 != Some(0) || reference[i].1.is_none() {
            return viol_obs(
                "c18.compact.rejected",
                format!("`{}` rejects a valid configuration in compact form ({} bytes)", api.join(" "), compact.len()),
                json!({"stderr": reference[i].2, "size": compact.len()}),
            );
        }
    }
    let mut nontrivial = false;
    let mut info = CaseInfo::new(false);
    for l in &case.layouts {
        let bytes = jsonw::write(&value, l);
        // self-check of the writer: same value
        match serde_json::from_slice::<Value>(&bytes) {
            Ok(back) if back == value => {}
            _ => return inconclusive("harness JSON writer produced a different value".into()),
        }
        env.write_raw_config(&bytes);
        let got = observe(&mut env, &apis);
        for (i, api) in apis.iter().enumerate() {
            if got[i].0 != reference[i].0 || got[i].1 != reference[i].1 {
                let sig = if bytes.len() > 8192 { "c18.differs.large" } else { "c18.differs" };
                return viol_obs(
                    sig,
                    format!(
                        "`{}` gives a different result for another serialisation of the same value ({} bytes, layout {:?})",
                        api.join(" "),
                        bytes.len(),
                        l
                    ),
                    json!({"exit": got[i].0, "stderr": got[i].2, "reference_exit": reference[i].0}),
                );
            }
        }
        let first_incomplete = bytes.len() > 8192 && serde_json::from_slice::<Value>(&bytes[..8192]).is_err();
        if first_incomplete {
            nontrivial = true;
        }
        let bucket = match bytes.len() {
            0..=8191 => "size<8192",
            8192..=8193 => "size=8192..8193",
            8194..=20_000 => "size<=20k",
            20_001..=100_000 => "size<=100k",
            _ => "size>100k",
        };
        info = info.class(bucket);
        if l.pad_to > 0 {
            info = info.class(match l.pad_pos {
                PadPos::Before => "pad-before",
                PadPos::Inside => "pad-inside",
                PadPos::After => "pad-after",
            });
        }
        if l.key_seed != 0 {
            info = info.class("shuffled-keys");
        }
        if let Some((b, d, _)) = l.align_non_ascii {
            if d == 0 || d == -1 {
                info = info.class("multibyte-char-straddles-boundary");
            }
            let _ = b;
        }
    }
    // `config generate` reads the configuration from stdin - a parse path of its own: the same
    // value in different serialisations must be accepted alike and generate the same configuration
    {
        let mut gv = value.clone();
        if let Some(o) = gv.as_object_mut() {
            o.insert("source".into(), json!({"path": "Monorail.src.json"}));
        }
        let mut layouts: Vec<Layout> = vec![Layout::compact()];
        layouts.extend(case.layouts.iter().take(3).cloned());
        let mut reference: Option<Value> = None;
        for (k, l) in layouts.iter().enumerate() {
            let bytes = jsonw::write(&gv, l);
            env.write_file("Monorail.src.json", &bytes);
            // (the output path still holds the file under test, or the previous generation:
            // often longer than what is generated now)
            let g = env.mr_stdin(&["config", "generate"], &bytes);
            let generated = std::fs::read(env.config_path()).ok().and_then(|b| serde_json::from_slice::<Value>(&b).ok()).map(|mut v| {
                if let Some(o) = v.as_object_mut() {
                    o.remove("source"); // carries the checksum of the source bytes
                }
                v
            });
            if k == 0 {
                if !g.ok() || generated.is_none() {
                    return viol_obs("c18.generate.compact.rejected", "`config generate` rejects a valid configuration in compact form".into(), g.brief());
                }
                reference = generated;
                continue;
            }
            if !g.ok() || generated != reference {
                return viol_obs(
                    "c18.generate.differs",
                    format!("`config generate` behaves differently for another serialisation of the same value ({} bytes on stdin, layout {:?})", bytes.len(), l),
                    json!({"run": g.brief(), "generated_equal": generated == reference}),
                );
            }
            if bytes.len() > 65536 {
                info = info.class("generate-from-stdin>64KiB");
            }
        }
    }
    info.nontrivial = nontrivial;
    info = info.class_if(case.config.targets.len() >= 100, "targets>=100");
    Ok(info.inv(env.invocations))
}

pub fn run(ctx: &mut Ctx) {
    ctx.rule = "a valid configuration value (small generated configs with nesting/uses/ignores/sequences, or 20-300 targets) x 4-8 serialisations by the harness's own writer: compact, pretty, \
random inter-token whitespace, shuffled key order in every object, \\uXXXX escapes, whitespace padding before/inside/after the document up to 4000, 8191-8193, 16 KiB, 64 KiB, 200 KiB, and alignment of a non-ASCII character so that it ends before / straddles / starts at a multiple of 1-64 KiB. \
oracle (metamorphic): the compact form is accepted, and every serialisation yields JSON-equal stdout (modulo timestamp) and equal exit status for `config show`, `target show -g`, \
`analyze --target-groups`, and for the small configurations (4 named sequences, 4 command definitions and 3 argmap definitions on two targets, every documented optional field spelled out) also `result show` and `log show` (of the run made under the previous serialisation), `target show --commands`, `run -s check`, `run -s release`, `run -c build zeta alpha` (failed flag and statuses); finally `config generate` is fed the value (plus a source path) on stdin in compact form and in the first three serialisations and must write the same configuration each time. non-trivial = some serialisation is larger than 8192 bytes and its first 8192 bytes are not a complete document; distinct by SHA-256"
        .to_string();
    ctx.assumptions = vec!["validity of the value is established through the in-process hook (serde + Index), independently of file reading".into()];
    let n = ctx.n(200, 4000);
    ctx.drive("value", strategy, n, check);
}

pub fn replay(ctx: &Ctx, label: &str, case: Value) -> Result<(), String> {
    let c: Case = serde_json::from_value(case).map_err(|e| e.to_string())?;
    let r = check(&c, 0);
    ctx.replay_one(label, &c, r);
    Ok(())
}
