//! C18 - configuration meaning depends only on its JSON value.

use crate::bb::{self, Env};
use crate::gen::{self, CycleMode};
use crate::jsonw::{self, Escapes, Layout, PadPos, Ws};
use crate::model::{ConfigSpec, TargetSpec};
use crate::runner::*;
use proptest::collection::vec;
use proptest::prelude::*;
use serde::{Deserialize, Serialize};
use serde_json::{json, Value};

#[derive(Debug, Clone, Serialize, Deserialize)]
pub struct Case {
    pub config: ConfigSpec,
    pub layouts: Vec<Layout>,
}

pub fn layout() -> impl Strategy<Value = Layout> {
    (
        prop_oneof![Just(Ws::Compact), (1usize..=4).prop_map(Ws::Pretty), any::<u64>().prop_map(|s| Ws::Random(s | 1))],
        prop_oneof![Just(0u64), any::<u64>()],
        prop_oneof![3 => Just(Escapes::None), 1 => Just(Escapes::NonAscii), 1 => Just(Escapes::SomeAscii), 1 => Just(Escapes::Exotic)],
        prop_oneof![
            3 => Just(0usize),
            1 => Just(4000usize),
            2 => prop_oneof![Just(8191usize), Just(8192), Just(8193)],
            2 => Just(16384usize),
            1 => Just(65536usize),
            1 => Just(200_000usize),
            1 => 8000usize..9000,
        ],
        prop_oneof![Just(PadPos::Before), Just(PadPos::Inside), Just(PadPos::After)],
        proptest::option::weighted(
            0.35,
            (
                prop_oneof![Just(1024usize), Just(4096), Just(8192), Just(16384), Just(32768), Just(65536)],
                -2i32..=1,
                any::<u16>(),
            ),
        ),
    )
        .prop_map(|(ws, key_seed, escapes, pad_to, pad_pos, align)| Layout {
            ws,
            key_seed,
            // an aligned character must stay raw
            escapes: if align.is_some() { Escapes::None } else { escapes },
            pad_to: if align.is_some() { 0 } else { pad_to },
            pad_pos,
            align_non_ascii: align,
        })
}

/// A configuration with many targets (a chain/fan of uses), to get large documents.
pub fn big_config(n: usize, picks: &[u16]) -> ConfigSpec {
    let mut targets = vec![];
    for i in 0..n {
        let mut t = TargetSpec::new(&format!("pkg/t{:03}", i));
        if i > 0 {
            let a = pick(picks[i % picks.len()], i);
            t.uses.push(format!("pkg/t{:03}", a));
            if i % 3 == 0 {
                let b = pick(picks[(i * 7) % picks.len()], i);
                let u = format!("pkg/t{:03}/src", b);
                t.uses.push(u);
            }
        }
        if i % 5 == 0 {
            t.ignores.push(format!("pkg/t{:03}/README.md", i));
        }
        targets.push(t);
    }
    let mut c = ConfigSpec {
        targets,
        ..Default::default()
    };
    c.sequences.insert("größe".into(), vec!["build".into(), "prüfen".into()]);
    c
}

pub fn strategy() -> impl Strategy<Value = Case> {
    let small = gen::raw_config(8, 3, 2).prop_map(|raw| {
        let mut c = gen::build_config(&raw, CycleMode::Acyclic);
        c.sequences.insert("dev".into(), vec!["build".into(), "test é".into()]);
        // several named entries in every name-keyed object, so that key order can matter
        c.sequences.insert("check".into(), vec!["lint".into(), "zeta".into()]);
        c.sequences.insert("release".into(), vec!["build".into(), "lint".into(), "zeta".into()]);
        c.sequences.insert("all".into(), vec!["alpha".into()]);
        for t in c.targets.iter_mut().take(2) {
            t.command_defs.insert("build".into(), "tools/c18/build-impl.sh".into());
            t.command_defs.insert("zeta".into(), "tools/c18/zeta.sh".into());
            t.command_defs.insert("lint".into(), "tools/c18/lint.sh".into());
            t.command_defs.insert("alpha".into(), String::new());
        }
        c.max_retained_runs = Some(7);
        c
    });
    let big = (20usize..300, vec(any::<u16>(), 16)).prop_map(|(n, picks)| big_config(n, &picks));
    (prop_oneof![3 => small, 2 => big], vec(layout(), 4..8)).prop_map(|(config, layouts)| Case { config, layouts })
}

const BASE_APIS: [&[&str]; 3] = [&["config", "show"], &["target", "show", "-g"], &["analyze", "--target-groups"]];
/// for small configurations: APIs that look names up in `sequences` and `commands.definitions`
const LOOKUP_APIS: [&[&str]; 6] = [
    // first: what the previous serialisation's last run recorded must still be readable
    &["result", "show"],
    &["log", "show", "--stdout"],
    &["target", "show", "--commands"],
    &["run", "-s", "check"],
    &["run", "-s", "release"],
    &["run", "-c", "build", "zeta", "alpha"],
];

fn apis(cfg: &ConfigSpec) -> Vec<&'static [&'static str]> {
    let mut v: Vec<&'static [&'static str]> = BASE_APIS.to_vec();
    if cfg.sequences.contains_key("check") {
        v.extend(LOOKUP_APIS.iter().copied());
    }
    v
}

/// What a `run` decided: flag and per-command, per-group statuses (paths, ids and times left out).
fn project_run(v: &Value) -> Value {
    let n = bb::normalize_run_doc(v);
    json!({"failed": n.get("failed"), "results": n.get("results"), "checkpointed": n.get("checkpointed")})
}

fn observe(env: &mut Env, apis: &[&'static [&'static str]]) -> Vec<(Option<i32>, Option<Value>, String)> {
    let mut v = vec![];
    for api in apis {
        let o = env.mr(api);
        let j = if api[0] == "log" {
            // plain text: headers and log bytes
            Some(Value::String(o.stdout_str()))
        } else {
            o.json().map(|j| if api[0] == "run" || api[0] == "result" { project_run(&j) } else { bb::strip_timestamp(&j) })
        };
        v.push((o.code, j, o.stderr_str()));
    }
    v
}

/// Spell out every documented optional field with the value it has by default, so that each
/// of them (strings, numbers, nested objects) takes part in the re-serialisations.
fn enrich(value: &mut Value) {
    let Some(o) = value.as_object_mut() else { return };
    o.entry("change_provider").or_insert(json!({"use": "git"}));
    o.entry("out_dir").or_insert(json!("monorail-out"));
    if let Some(server) = o.get_mut("server").and_then(|s| s.as_object_mut()) {
        for k in ["log", "lock"] {
            if let Some(s) = server.get_mut(k).and_then(|s| s.as_object_mut()) {
                s.entry("host").or_insert(json!("127.0.0.1"));
                s.entry("bind_timeout_ms").or_insert(json!(1000));
            }
        }
    }
    if let Some(ts) = o.get_mut("targets").and_then(|t| t.as_array_mut()) {
        for t in ts.iter_mut().take(2) {
            if let Some(t) = t.as_object_mut() {
                let path = t.get("path").and_then(|p| p.as_str()).unwrap_or("").trim_end_matches('/').to_string();
                t.entry("argmaps").or_insert(json!({
                    "path": format!("{}/monorail/argmap", path),
                    "definitions": {"zulu": {"path": "tools/c18/zulu.json"}, "extra": {"path": "tools/c18/extra.json"}, "base": {"path": "tools/c18/base.json"}},
                }));
            }
        }
    }
}

pub fn check(case: &Case, w: usize) -> CheckResult {
    let mut env = Env::new(w);
    env.install_config(&case.config);
    let mut value = env.with_ports(&case.config).to_value();
    if case.config.sequences.contains_key("check") {
        enrich(&mut value);
    }
    // sanity: the value is a valid configuration (independently of how files are read)
    let all = case.config.target_paths();
    let valid = monorail::verif::index_groups(&serde_json::to_string(&value).unwrap(), &all, &env.repo);
    if let Err(e) = valid {
        return inconclusive(format!("generated configuration is not valid: {}", e));
    }
    let apis = apis(&case.config);
    if apis.len() > BASE_APIS.len() {
        for f in ["tools/c18/build-impl.sh", "tools/c18/zeta.sh", "tools/c18/lint.sh"] {
            env.install_command(f, true);
        }
    }
    let compact = jsonw::write(&value, &Layout::compact());
    env.write_raw_config(&compact);
    if apis.len() > BASE_APIS.len() {
        // a first run, so that `result show` / `log show` have something to show from the start
        let first = env.mr(&["run", "-c", "build", "zeta", "alpha"]);
        if first.json().is_none() {
            // (not one of the judged observations: without it there is nothing to show)
            return inconclusive(format!("the preparatory run produced no result: {}", first.brief()));
        }
    }
    let reference = observe(&mut env, &apis);
    for (i, api) in apis.iter().enumerate() {
        if reference[i].0 != Some(0) || reference[i].1.is_none() {
            return viol_obs(
                "c18.compact.rejected",
                format!("`{}` rejects a valid configuration in compact form ({} bytes)", api.join(" "), compact.len()),
                json!({"stderr": reference[i].2, "size": compact.len()}),
            );
        }
    }
    let mut nontrivial = false;
    let mut info = CaseInfo::new(false);
    for l in &case.layouts {
        let bytes = jsonw::write(&value, l);
        // self-check of the writer: same value
        match serde_json::from_slice::<Value>(&bytes) {
            Ok(back) if back == value => {}
            _ => return inconclusive("harness JSON writer produced a different value".into()),
        }
        env.write_raw_config(&bytes);
        let got = observe(&mut env, &apis);
        for (i, api) in apis.iter().enumerate() {
            if got[i].0.is_none() {
                // killed by the harness's own watchdog (or by a signal): says nothing about the property
                return inconclusive(format!("`{}` did not end by itself (time-out of the harness)", api.join(" ")));
            }
            if got[i].0 != reference[i].0 || got[i].1 != reference[i].1 {
                let sig = if bytes.len() > 8192 { "c18.differs.large" } else { "c18.differs" };
                return viol_obs(
                    sig,
                    format!(
                        "`{}` gives a different result for another serialisation of the same value ({} bytes, layout {:?})",
                        api.join(" "),
                        bytes.len(),
                        l
                    ),
                    json!({"exit": got[i].0, "stderr": got[i].2, "reference_exit": reference[i].0}),
                );
            }
        }
        let first_incomplete = bytes.len() > 8192 && serde_json::from_slice::<Value>(&bytes[..8192]).is_err();
        if first_incomplete {
            nontrivial = true;
        }
        let bucket = match bytes.len() {
            0..=8191 => "size<8192",
            8192..=8193 => "size=8192..8193",
            8194..=20_000 => "size<=20k",
            20_001..=100_000 => "size<=100k",
            _ => "size>100k",
        };
        info = info.class(bucket);
        if l.pad_to > 0 {
            info = info.class(match l.pad_pos {
                PadPos::Before => "pad-before",
                PadPos::Inside => "pad-inside",
                PadPos::After => "pad-after",
            });
        }
        if l.key_seed != 0 {
            info = info.class("shuffled-keys");
        }
        if let Some((b, d, _)) = l.align_non_ascii {
            if d == 0 || d == -1 {
                info = info.class("multibyte-char-straddles-boundary");
            }
            let _ = b;
        }
    }
    // `config generate` reads the configuration from stdin - a parse path of its own: the same
    // value in different serialisations must be accepted alike and generate the same configuration
    {
        let mut gv = value.clone();
        if let Some(o) = gv.as_object_mut() {
            o.insert("source".into(), json!({"path": "Monorail.src.json"}));
        }
        let mut layouts: Vec<Layout> = vec![Layout::compact()];
        layouts.extend(case.layouts.iter().take(3).cloned());
        let mut reference: Option<Value> = None;
        for (k, l) in layouts.iter().enumerate() {
            let bytes = jsonw::write(&gv, l);
            env.write_file("Monorail.src.json", &bytes);
            // (the output path still holds the file under test, or the previous generation:
            // often longer than what is generated now)
            let g = env.mr_stdin(&["config", "generate"], &bytes);
            let generated = std::fs::read(env.config_path()).ok().and_then(|b| serde_json::from_slice::<Value>(&b).ok()).map(|mut v| {
                if let Some(o) = v.as_object_mut() {
                    o.remove("source"); // carries the checksum of the source bytes
                }
                v
            });
            if k == 0 {
                if !g.ok() || generated.is_none() {
                    return viol_obs("c18.generate.compact.rejected", "`config generate` rejects a valid configuration in compact form".into(), g.brief());
                }
                reference = generated;
                continue;
            }
            if !g.ok() || generated != reference {
                return viol_obs(
                    "c18.generate.differs",
                    format!("`config generate` behaves differently for another serialisation of the same value ({} bytes on stdin, layout {:?})", bytes.len(), l),
                    json!({"run": g.brief(), "generated_equal": generated == reference}),
                );
            }
            if bytes.len() > 65536 {
                info = info.class("generate-from-stdin>64KiB");
            }
        }
    }
    // the configuration file is tracked by git and a checkpoint exists: re-serialising it changes
    // the file's bytes (so it may show up in the list of changes), but not which targets are
    // changed, how they are grouped, or what `run` executes
    {
        env.write_raw_config(&compact);
        if let Err(e) = bb::commit_all_and_checkpoint(&mut env) {
            return inconclusive(e);
        }
        let t0 = case.config.targets[0].path.trim_end_matches('/').to_string();
        env.write_file(&format!("{}/c18-edited-since-checkpoint.txt", t0), b"new\n");
        let project = |v: &Value| json!({"targets": v.get("targets"), "target_groups": v.get("target_groups"), "checkpointed": v.get("checkpointed")});
        let small = apis.len() > BASE_APIS.len();
        let mut reference: Option<(Value, Option<Value>)> = None;
        let mut layouts: Vec<Layout> = vec![Layout::compact()];
        layouts.extend(case.layouts.iter().take(2).cloned());
        for (k, l) in layouts.iter().enumerate() {
            let bytes = jsonw::write(&value, l);
            env.write_raw_config(&bytes);
            let a = env.mr(&["analyze", "--target-groups"]);
            let Some(av) = a.json().map(|v| project(&v)) else {
                if k == 0 {
                    return inconclusive(format!("analyze with a checkpoint failed under the compact form: {}", a.brief()));
                }
                return viol_obs("c18.checkpointed.differs", "with a checkpoint, `analyze --target-groups` fails under another serialisation of the same value".into(), a.brief());
            };
            let rv = if small {
                let r = env.mr(&["run", "-c", "build", "zeta"]);
                r.json().map(|j| project_run(&j))
            } else {
                None
            };
            match &reference {
                None => reference = Some((av, rv)),
                Some((ra, rr)) => {
                    if &av != ra || &rv != rr {
                        return viol_obs(
                            "c18.checkpointed.differs",
                            format!("with a checkpoint and the configuration file tracked, `analyze --target-groups` / `run` give a different result for another serialisation of the same value ({} bytes, layout {:?})", bytes.len(), l),
                            json!({"analyze": av, "reference": ra, "run_equal": &rv == rr}),
                        );
                    }
                }
            }
        }
        info = info.class("checkpointed-with-tracked-configuration");
    }
    info.nontrivial = nontrivial;
    info = info.class_if(case.config.targets.len() >= 100, "targets>=100");
    Ok(info.inv(env.invocations))
}

// ---------------------------------------------------------------------------
// in-process form: the loading step every sub-command starts with (`Config::new`, `check`, `fill`,
// serialised as `config show` prints it), through the guarded hook `verif::config_load`

/// Layouts for the in-process form: the sizes of the command-line form plus 32 KiB, 128 KiB, 1 MiB
/// and 4 MiB (each also one byte less and more).
pub fn layout_wide() -> impl Strategy<Value = Layout> {
    (
        layout(),
        prop_oneof![
            6 => Just(None),
            2 => (prop_oneof![Just(32768usize), Just(131072), Just(262144)], -1i32..=1).prop_map(Some),
            1 => (Just(1usize << 20), -1i32..=1).prop_map(Some),
            1 => (Just(4usize << 20), -1i32..=1).prop_map(Some),
        ],
        proptest::option::weighted(0.15, (prop_oneof![Just(131072usize), Just(1usize << 20)], -2i32..=1, any::<u16>())),
    )
        .prop_map(|(mut l, big, align)| {
            if let Some((b, d)) = big {
                if l.align_non_ascii.is_none() {
                    l.pad_to = (b as i64 + d as i64) as usize;
                }
            }
            if let Some(a) = align {
                l.align_non_ascii = Some(a);
                l.escapes = Escapes::None;
                l.pad_to = 0;
            }
            l
        })
}

pub fn strategy_inproc() -> impl Strategy<Value = Case> {
    (strategy(), vec(layout_wide(), 4..10)).prop_map(|(mut c, more)| {
        c.layouts.extend(more);
        c
    })
}

/// The value of a case for the in-process form (fixed ports; nothing listens or binds here).
pub fn inproc_value(cfg: &ConfigSpec) -> Value {
    let mut c = cfg.clone();
    c.lock_port = Some(20001);
    // (nothing binds here: in a fifth of the values both servers are given the same address,
    // which a configuration may say)
    c.log_port = Some(if cfg.targets.len() % 5 == 2 { 20001 } else { 20002 });
    let mut value = c.to_value();
    if cfg.sequences.contains_key("check") {
        enrich(&mut value);
    }
    value
}

fn load_as_value(path: &std::path::Path) -> Result<Value, String> {
    let s = monorail::verif::config_load(path)?;
    serde_json::from_str::<Value>(&s).map_err(|e| format!("config_load returned something that is not JSON: {}", e))
}

pub fn check_inproc(case: &Case, w: usize) -> CheckResult {
    let dir = crate::scratch::fast_root().join(format!("w{}", w)).join("c18ip");
    std::fs::create_dir_all(&dir).map_err(|e| Inconclusive(e.to_string()))?;
    let path = dir.join("Monorail.json");
    let value = inproc_value(&case.config);
    let compact = jsonw::write(&value, &Layout::compact());
    std::fs::write(&path, &compact).map_err(|e| Inconclusive(e.to_string()))?;
    let reference = match load_as_value(&path) {
        Ok(v) => v,
        Err(e) => {
            return viol_obs(
                "c18.inproc.compact.rejected",
                format!("loading rejects a valid configuration in compact form ({} bytes)", compact.len()),
                json!({"error": e}),
            )
        }
    };
    // the loaded configuration is the one that was written: every target, in order
    let want: Vec<String> = case.config.targets.iter().map(|t| t.path.clone()).collect();
    let got: Vec<String> = reference
        .get("targets")
        .and_then(|t| t.as_array())
        .map(|a| a.iter().filter_map(|t| t.get("path").and_then(|p| p.as_str()).map(String::from)).collect())
        .unwrap_or_default();
    if want != got {
        return viol_obs("c18.inproc.targets", "the loaded configuration does not list the configured targets".into(), json!({"want": want, "got": got}));
    }
    let mut info = CaseInfo::new(false);
    let mut nontrivial = false;
    for l in &case.layouts {
        let bytes = jsonw::write(&value, l);
        match serde_json::from_slice::<Value>(&bytes) {
            Ok(back) if back == value => {}
            _ => return inconclusive("harness JSON writer produced a different value".into()),
        }
        std::fs::write(&path, &bytes).map_err(|e| Inconclusive(e.to_string()))?;
        let got = load_as_value(&path);
        if got.as_ref().ok() != Some(&reference) {
            let sig = if bytes.len() > 8192 { "c18.inproc.differs.large" } else { "c18.inproc.differs" };
            return viol_obs(
                sig,
                format!("loading gives a different result for another serialisation of the same value ({} bytes, layout {:?})", bytes.len(), l),
                json!({"result": got.as_ref().err()}),
            );
        }
        if bytes.len() > 8192 && serde_json::from_slice::<Value>(&bytes[..8192]).is_err() {
            nontrivial = true;
        }
        info = info.class(match bytes.len() {
            0..=8191 => "size<8192",
            8192..=8193 => "size=8192..8193",
            8194..=20_000 => "size<=20k",
            20_001..=100_000 => "size<=100k",
            100_001..=1_000_000 => "size<=1M",
            _ => "size>1M",
        });
        info = info
            .class_if(l.key_seed != 0, "shuffled-keys")
            .class_if(l.escapes == Escapes::Exotic, "exotic-escapes")
            .class_if(matches!(l.align_non_ascii, Some((_, d, _)) if d == 0 || d == -1), "multibyte-char-straddles-boundary");
    }
    let _ = std::fs::remove_file(&path);
    info.nontrivial = nontrivial;
    Ok(info.class_if(case.config.targets.len() >= 100, "targets>=100"))
}

/// bytes -> case, for the libFuzzer target (same case type, same oracle)
pub fn decode_case(b: &mut gen::decode::Bytes) -> Case {
    let big = b.u8() % 4 == 0;
    let config = if big {
        let n = 20 + b.u8() as usize;
        let picks: Vec<u16> = (0..16).map(|_| b.u16()).collect();
        big_config(n, &picks)
    } else {
        let raw = gen::decode::raw_config(b, 8, 3, 2);
        let mut c = gen::build_config(&raw, CycleMode::Acyclic);
        c.sequences.insert("dev".into(), vec!["build".into(), "test é".into()]);
        c.sequences.insert("check".into(), vec!["lint".into(), "zeta".into()]);
        c
    };
    let mut layouts = vec![];
    let n = 1 + b.below(6);
    for _ in 0..n {
        let ws = match b.below(3) {
            0 => Ws::Compact,
            1 => Ws::Pretty(1 + b.below(4)),
            _ => Ws::Random(b.u64() | 1),
        };
        let key_seed = if b.u8() & 1 == 0 { 0 } else { b.u64() };
        let escapes = [Escapes::None, Escapes::None, Escapes::NonAscii, Escapes::SomeAscii, Escapes::Exotic][b.below(5)].clone();
        let pad_to = match b.below(8) {
            0 | 1 | 2 => 0,
            3 => 8191 + b.below(3),
            4 => 16383 + b.below(3),
            5 => 65535 + b.below(3),
            6 => b.u16() as usize,
            _ => 131071 + b.below(3),
        };
        let pad_pos = [PadPos::Before, PadPos::Inside, PadPos::After][b.below(3)].clone();
        let align = if b.u8() % 3 == 0 {
            Some(([1024usize, 4096, 8192, 16384, 32768, 65536][b.below(6)], b.below(4) as i32 - 2, b.u16()))
        } else {
            None
        };
        layouts.push(Layout {
            ws,
            key_seed,
            escapes: if align.is_some() { Escapes::None } else { escapes },
            pad_to: if align.is_some() { 0 } else { pad_to },
            pad_pos,
            align_non_ascii: align,
        });
    }
    Case { config, layouts }
}

pub fn run(ctx: &mut Ctx) {
    ctx.rule = "a valid configuration value (small generated configs with nesting/uses/ignores/sequences, or 20-300 targets) x 4-8 serialisations by the harness's own writer: compact, pretty, \
random inter-token whitespace, shuffled key order in every object, \\uXXXX escapes, whitespace padding before/inside/after the document up to 4000, 8191-8193, 16 KiB, 64 KiB, 200 KiB, and alignment of a non-ASCII character so that it ends before / straddles / starts at a multiple of 1-64 KiB. \
oracle (metamorphic): the compact form is accepted, and every serialisation yields JSON-equal stdout (modulo timestamp) and equal exit status for `config show`, `target show -g`, \
`analyze --target-groups`, and for the small configurations (4 named sequences, 4 command definitions and 3 argmap definitions on two targets, every documented optional field spelled out) also `result show` and `log show` (of the run made under the previous serialisation), `target show --commands`, `run -s check`, `run -s release`, `run -c build zeta alpha` (failed flag and statuses); finally `config generate` is fed the value (plus a source path) on stdin in compact form and in the first three serialisations and must write the same configuration each time. non-trivial = some serialisation is larger than 8192 bytes and its first 8192 bytes are not a complete document; distinct by SHA-256"
        .to_string();
    ctx.assumptions = vec!["validity of the value is established through the in-process hook (serde + Index), independently of file reading".into()];
    let ni = ctx.n(4000, 150_000);
    ctx.drive("inproc-load", strategy_inproc, ni, check_inproc);
    let n = ctx.n(200, 4000);
    ctx.drive("value", strategy, n, check);
}

pub fn replay(ctx: &Ctx, label: &str, case: Value) -> Result<(), String> {
    let c: Case = serde_json::from_value(case).map_err(|e| e.to_string())?;
    let r = if label.contains("inproc") { check_inproc(&c, 0) } else { check(&c, 0) };
    ctx.replay_one(label, &c, r);
    Ok(())
}
