//! C08 - stored logs are byte-exact and isolated per task.

use crate::bb::{self, Behavior, Env, Step};
use crate::model::{ConfigSpec, TargetSpec};
use crate::runner::*;
use crate::scratch;
use proptest::collection::vec;
use proptest::prelude::*;
use serde::{Deserialize, Serialize};
use serde_json::{json, Value};
use std::collections::BTreeMap;
use std::sync::atomic::{AtomicU64, Ordering};

#[derive(Debug, Clone, Serialize, Deserialize)]
pub struct Case {
    /// one script per stream; streams 2k and 2k+1 are stdout/stderr of task k
    pub streams: Vec<Vec<Step>>,
    pub rng_seed: u64,
}

fn chunk(stream: usize, n: usize, kind: u8, sel: u16) -> Vec<u8> {
    let tag = format!("<s{}#{}>", stream, n);
    match kind {
        0 => format!("{} a short line of text\n", tag).into_bytes(),
        1 => format!("{} partial-without-newline", tag).into_bytes(),
        2 => {
            let mut v = tag.into_bytes();
            v.extend(std::iter::repeat(b'L').take(8200 + (sel as usize % 2000)));
            v.push(b'\n');
            v
        }
        3 => {
            let mut v = tag.into_bytes();
            v.extend(std::iter::repeat(b'H').take(66_000 + (sel as usize % 9000)));
            if sel % 2 == 0 {
                v.push(b'\n');
            }
            v
        }
        4 => vec![],
        5 => {
            let mut v = tag.into_bytes();
            v.extend_from_slice(&[0, 255, 13, 0, 0xC3, 0x28, 0xE2, 0x82, 27, b'[', b'0', b'm', 0]);
            if sel % 3 != 0 {
                v.push(b'\n');
            }
            v
        }
        6 => b"\n".to_vec(),
        7 => format!("{}one\n{}two\n\n{}three\n", tag, tag, tag).into_bytes(),
        8 => format!("{} crlf line\r\n", tag).into_bytes(),
        10 => {
            // poorly compressible text: 140-600 KB of pseudo-random base64-like lines
            let mut v = tag.into_bytes();
            let mut x: u64 = 0x9E37_79B9_7F4A_7C15 ^ ((stream as u64) << 32) ^ (n as u64) << 16 ^ sel as u64;
            let total = 140_000 + (sel as usize % 8) * 60_000;
            const AB: &[u8] = b"ABCDEFGHIJKLMNOPQRSTUVWXYZabcdefghijklmnopqrstuvwxyz0123456789+/";
            let mut col = 0;
            while v.len() < total {
                x ^= x << 13;
                x ^= x >> 7;
                x ^= x << 17;
                for k in 0..8 {
                    v.push(AB[((x >> (k * 6)) & 63) as usize]);
                }
                col += 8;
                if col >= 76 {
                    v.push(b'\n');
                    col = 0;
                }
            }
            v.push(b'\n');
            v
        }
        11 => {
            // raw pseudo-random binary, 130-300 KB, newline bytes wherever they fall
            let mut v = tag.into_bytes();
            let mut x: u64 = 0xD1B5_4A32_D192_ED03 ^ ((stream as u64) << 24) ^ (n as u64) << 8 ^ sel as u64;
            let total = 130_000 + (sel as usize % 4) * 57_000;
            while v.len() < total {
                x ^= x << 13;
                x ^= x >> 7;
                x ^= x << 17;
                v.extend_from_slice(&x.to_le_bytes());
            }
            v
        }
        _ => format!("{} é unicode ✓ line\n", tag).into_bytes(),
    }
}

fn pause() -> impl Strategy<Value = u64> {
    prop_oneof![
        3 => 0u64..=3,
        4 => prop_oneof![Just(499u64), Just(500), Just(501), Just(700), Just(999), Just(1000), Just(1001), Just(1200)],
        2 => 480u64..=520,
        1 => 3u64..=480,
    ]
}

pub fn script(stream: usize, max_steps: usize) -> impl Strategy<Value = Vec<Step>> {
    vec(
        prop_oneof![
            5 => (prop_oneof![8 => Just(0u8), 8 => Just(1), 2 => Just(2), 2 => Just(3), 2 => Just(4), 4 => Just(5), 2 => Just(6), 4 => Just(7), 2 => Just(8), 2 => Just(9), 1 => Just(10), 1 => Just(11)], any::<u16>())
                .prop_map(|(k, s)| (Some((k, s)), 0u64)),
            3 => pause().prop_map(|p| (None, p)),
        ],
        0..=max_steps,
    )
    .prop_map(move |raw| {
        let mut steps = vec![];
        let mut n = 0;
        for (w, p) in raw {
            match w {
                Some((k, s)) => {
                    n += 1;
                    let b = chunk(stream, n, k, s);
                    if !b.is_empty() {
                        steps.push(Step::W(b));
                    }
                }
                None => steps.push(Step::P(p)),
            }
        }
        steps
    })
}

pub fn strategy(max_tasks: usize, max_steps: usize) -> impl Strategy<Value = Case> {
    (1usize..=max_tasks)
        .prop_flat_map(move |t| {
            let scripts: Vec<_> = (0..2 * t).map(|i| script(i, max_steps).boxed()).collect();
            (scripts, any::<u64>())
        })
        .prop_map(|(streams, rng_seed)| Case { streams, rng_seed })
}

pub fn classify(streams: &[Vec<Step>]) -> (bool, Vec<&'static str>) {
    let mut mid_line_pause = false;
    let mut long_line = false;
    let mut big_incompressible = false;
    let mut binary = false;
    let mut no_final_newline = false;
    let active = streams.iter().filter(|s| s.iter().any(|x| matches!(x, Step::W(_) | Step::F { .. }))).count();
    let mut volume = false;
    for s in streams {
        let mut in_line = false;
        for st in s {
            match st {
                Step::W(b) => {
                    if b.len() > 65_536 {
                        long_line = true;
                    }
                    if b.len() > 128_000 {
                        big_incompressible = true;
                    }
                    if b.contains(&0) {
                        binary = true;
                    }
                    in_line = b.last() != Some(&b'\n');
                }
                Step::P(ms) => {
                    if in_line && *ms >= 500 {
                        mid_line_pause = true;
                    }
                }
                Step::F { total, line, .. } => {
                    volume = true;
                    in_line = *line == 0 || *total % *line != 0;
                }
            }
        }
        if in_line {
            no_final_newline = true;
        }
    }
    let mut c = vec![];
    if mid_line_pause {
        c.push("pause>=flush-interval-inside-a-line");
    }
    if long_line {
        c.push("line>64KiB");
    }
    if binary {
        c.push("binary");
    }
    if big_incompressible {
        c.push("chunk>128KiB-incompressible");
    }
    if no_final_newline {
        c.push("no-final-newline");
    }
    if active >= 3 {
        c.push("streams>=3");
    }
    if volume {
        c.push("megabytes-within-one-flush-interval");
    }
    (mid_line_pause || long_line || binary || active >= 3 || volume, c)
}

static FILE_COUNTER: AtomicU64 = AtomicU64::new(0);

pub fn check_inproc(case: &Case, w: usize) -> CheckResult {
    let k = FILE_COUNTER.fetch_add(1, Ordering::SeqCst);
    let dir = scratch::root().join(format!("cap-w{}", w)).join(format!("c{}", k));
    std::fs::create_dir_all(&dir).map_err(|e| Inconclusive(e.to_string()))?;
    let mut specs = vec![];
    for (i, s) in case.streams.iter().enumerate() {
        let steps: Vec<monorail::verif::Step> = s
            .iter()
            .map(|st| match st {
                Step::W(b) => monorail::verif::Step::Write(b.clone()),
                Step::P(ms) => monorail::verif::Step::PauseMs(*ms),
                Step::F { total, line, tag } => monorail::verif::Step::Write(crate::fill::fill_bytes(*total, *line, *tag)),
            })
            .collect();
        let name = if i % 2 == 0 { "stdout.zst" } else { "stderr.zst" };
        let d = dir.join(format!("t{}", i / 2));
        std::fs::create_dir_all(&d).map_err(|e| Inconclusive(e.to_string()))?;
        specs.push((d.join(name), steps));
    }
    let paths: Vec<_> = specs.iter().map(|s| s.0.clone()).collect();
    let rt = tokio::runtime::Builder::new_current_thread()
        .enable_time()
        .start_paused(true)
        .rng_seed(tokio::runtime::RngSeed::from_bytes(&case.rng_seed.to_le_bytes()))
        .build()
        .map_err(|e| Inconclusive(e.to_string()))?;
    let res = std::panic::catch_unwind(std::panic::AssertUnwindSafe(|| rt.block_on(monorail::verif::capture(specs, 2))));
    drop(rt);
    let result = (|| -> CheckResult {
        match res {
            Err(_) => return viol("c08.panic", "log capture panicked".into()),
            Ok(Err(e)) => return viol("c08.capture.error", format!("log capture failed: {}", e)),
            Ok(Ok(())) => {}
        }
        for (i, p) in paths.iter().enumerate() {
            let want = bb::script_bytes(&case.streams[i]);
            let got = bb::decode_zst(p).map_err(|e| Violation::new("c08.decode", e))?;
            if got != want {
                return Err(mismatch("c08.inproc", i, &want, &got).into());
            }
        }
        let (nt, classes) = classify(&case.streams);
        let mut info = CaseInfo::new(nt);
        for c in classes {
            info = info.class(c);
        }
        Ok(info)
    })();
    let _ = std::fs::remove_dir_all(&dir);
    result
}

fn mismatch(prefix: &str, stream: usize, want: &[u8], got: &[u8]) -> Violation {
    let first = want.iter().zip(got.iter()).position(|(a, b)| a != b).unwrap_or(want.len().min(got.len()));
    let ctx = |b: &[u8]| String::from_utf8_lossy(&b[first.saturating_sub(30)..(first + 40).min(b.len())]).to_string();
    let kind = if got.len() < want.len() && want.ends_with(got) {
        "lost-prefix"
    } else if got.len() < want.len() {
        "lost-bytes"
    } else if got.len() > want.len() {
        "extra-bytes"
    } else {
        "different-bytes"
    };
    Violation::new(
        &format!("{}.{}", prefix, kind),
        format!(
            "stream {}: stored log differs from what was written ({} bytes written, {} stored, first difference at offset {})",
            stream,
            want.len(),
            got.len(),
            first
        ),
    )
    .with(json!({"written_around": ctx(want), "stored_around": ctx(got)}))
}

// ---------------------------------------------------------------------------
// real-time variant through `monorail run`

/// Target names of the CLI cases: `t1`, `t11`, `t111`, ... - each a string prefix of the next
/// (never a path-component prefix), so that a `-t` filter has something to confuse.
fn tname(i: usize) -> String {
    format!("t{}", "1".repeat(i + 1))
}

/// One invocation that executes the same command twice for the same target (named twice, or once
/// through a sequence and once with -c); the executions write different amounts.
#[derive(Debug, Clone, Serialize, Deserialize)]
pub struct RepeatCase {
    /// 0: `-c c0 c1 c0`; 1: `-s ci -c c0` with ci = [c0, c1]
    pub form: u8,
    /// bytes written per stream by the first execution of c0 (the later ones write one short line)
    pub first_bytes: usize,
    /// the later execution writes more than the first instead of less
    pub growing: bool,
}

pub fn repeat_cases() -> Vec<RepeatCase> {
    vec![
        RepeatCase { form: 0, first_bytes: 300_000, growing: false },
        RepeatCase { form: 1, first_bytes: 300_000, growing: false },
        RepeatCase { form: 1, first_bytes: 2_000, growing: false },
        RepeatCase { form: 0, first_bytes: 150_000, growing: true },
    ]
}

pub fn check_repeat(case: &RepeatCase, w: usize) -> CheckResult {
    let t = tname(0);
    let mut cfg = ConfigSpec { targets: vec![TargetSpec::new(&t)], ..Default::default() };
    if case.form == 1 {
        cfg.sequences.insert("ci".into(), vec!["c0".into(), "c1".into()]);
    }
    let mut env = Env::new(w);
    env.install_config(&cfg);
    let big = |tag: u32| vec![Step::F { total: case.first_bytes, line: 77, tag }];
    let small = |s: &str| vec![Step::W(format!("{} of a later execution\n", s).into_bytes())];
    let (first_out, first_err, later_out, later_err) = if case.growing {
        (small("out"), small("err"), big(1), big(2))
    } else {
        (big(1), big(2), small("out"), small("err"))
    };
    let mut beh = BTreeMap::new();
    beh.insert(
        ("c0".to_string(), t.clone()),
        Behavior { out: first_out.clone(), err: first_err.clone(), out_later: later_out.clone(), err_later: later_err.clone(), ..Default::default() },
    );
    beh.insert(("c1".to_string(), t.clone()), Behavior { out: small("c1"), ..Default::default() });
    bb::install_simple(&env, &cfg, &beh);
    let args: Vec<&str> = if case.form == 1 { vec!["run", "-s", "ci", "-c", "c0"] } else { vec!["run", "-c", "c0", "c1", "c0"] };
    let out = env.mr(&args);
    let Some(doc) = out.json().filter(|_| out.ok()) else {
        return inconclusive(format!("the run with a repeated command did not succeed: {}", out.brief()));
    };
    let run = bb::parse_run(&doc).map_err(|e| Violation::new("c08.output", e))?;
    let starts = env.traces().iter().filter(|tr| bb::trace_key(&env, tr).0 == "c0").count();
    if starts != 2 {
        return inconclusive(format!("c0 was executed {} times, not twice", starts));
    }
    let run_path = std::path::PathBuf::from(&run.run_path);
    for (stream, first, later) in [("stdout", &first_out, &later_out), ("stderr", &first_err, &later_err)] {
        let got = match bb::stored_log(&run_path, "c0", &t, stream) {
            Ok(g) => g,
            Err(e) => {
                return viol(
                    "c08.repeat.decode",
                    format!("the stored {} of a command executed twice in one invocation does not decompress: {}", stream, e),
                )
            }
        };
        // either execution's bytes would be 'exactly what the process wrote'; a mixture is not
        if got != bb::script_bytes(later) && got != bb::script_bytes(first) {
            return viol(
                "c08.repeat.bytes",
                format!("the stored {} of a command executed twice ({} bytes) is what neither execution wrote ({} / {} bytes)", stream, got.len(), bb::script_bytes(first).len(), bb::script_bytes(later).len()),
            );
        }
    }
    let show = env.mr(&["log", "show", "--stdout", "--stderr"]);
    if !show.ok() {
        return viol_obs("c08.repeat.logshow.failed", "log show fails after a run that executed one command twice".into(), show.brief());
    }
    Ok(CaseInfo::new(true).class("same-command-executed-twice-in-one-invocation").inv(env.invocations))
}

pub fn check_cli(case: &Case, w: usize) -> CheckResult {
    let ntasks = case.streams.len() / 2;
    let cfg = ConfigSpec {
        targets: (0..ntasks).map(|i| TargetSpec::new(&tname(i))).collect(),
        ..Default::default()
    };
    let mut env = Env::new(w);
    env.install_config(&cfg);
    let mut beh = BTreeMap::new();
    for i in 0..ntasks {
        beh.insert(
            ("c0".to_string(), tname(i)),
            Behavior {
                out: case.streams[2 * i].clone(),
                err: case.streams[2 * i + 1].clone(),
                // a quarter of the tasks leave a silent background process holding the pipes
                linger_ms: if (case.rng_seed >> (2 * i)) & 3 == 0 { 250 + (case.rng_seed >> 20) % 1100 } else { 0 },
                ..Default::default()
            },
        );
    }
    bb::install_simple(&env, &cfg, &beh);
    // a quarter of the cases with a slow compressor thread (guarded point, 600-900 ms per batch):
    // the queue of batches is then still long when the last task of the group has finished
    let slow_compressor = (case.rng_seed >> 40) % 4 == 0;
    let points: Vec<(&str, String)> = if slow_compressor {
        vec![("MRV_POINTS", format!("log.compressor.data=delay:{}", 600 + (case.rng_seed >> 44) % 300))]
    } else {
        vec![]
    };
    // a quarter of the cases with a `log tail` listener attached: what is streamed must not
    // change what is stored
    let with_listener = (case.rng_seed >> 50) % 4 == 0;
    let mut tail = None;
    if with_listener {
        let mut t = env.mr_spawn(&["log", "tail", "--stdout", "--stderr"], &[]);
        if !bb::wait_listening(env.log_port, std::time::Duration::from_secs(20)) {
            t.kill_group();
            return inconclusive("log tail did not start listening".into());
        }
        tail = Some(t);
    }
    let out = env.mr_env(&["run", "-c", "c0"], &points, std::time::Duration::from_secs(300));
    if let Some(mut t) = tail {
        t.kill_group();
        let _ = t.wait(std::time::Duration::from_secs(10));
    }
    let Some(doc) = out.json() else {
        return viol_obs("c08.cli.run.failed", "run of all-zero-exit commands failed".into(), out.brief());
    };
    let run = bb::parse_run(&doc).map_err(|e| Violation::new("c08.output", e))?;
    let run_path = std::path::PathBuf::from(&run.run_path);
    let show = env.mr(&["log", "show", "--stdout", "--stderr"]);
    if !show.ok() {
        return viol_obs("c08.cli.logshow.failed", "log show failed".into(), show.brief());
    }
    let mut expected: BTreeMap<(String, String, String), Vec<u8>> = BTreeMap::new();
    for (cmd, groups) in &run.results {
        for g in groups {
            for (t, r) in g {
                if r.status != "success" {
                    return viol("c08.cli.status", format!("({}, {}) exits 0 but is reported {:?}", cmd, t, r.status));
                }
                let i: usize = t.len().saturating_sub(2);
                for (si, stream) in ["stdout", "stderr"].iter().enumerate() {
                    let want = bb::script_bytes(&case.streams[2 * i + si]);
                    let got = bb::stored_log(&run_path, cmd, t, stream).map_err(|e| Violation::new("c08.decode", e))?;
                    if got != want {
                        return Err(mismatch("c08.cli", 2 * i + si, &want, &got).into());
                    }
                    expected.insert((stream.to_string(), t.clone(), cmd.clone()), want);
                }
            }
        }
    }
    if let Err((kind, msg)) = bb::verify_show(&show.stdout, &expected) {
        return viol(&format!("c08.cli.logshow.{}", kind), format!("log show: {}", msg));
    }
    // filtered by target: exactly that target's logs
    for i in 0..ntasks.min(3) {
        let name = tname(i);
        let show = env.mr(&["log", "show", "--stdout", "--stderr", "-t", &name]);
        let only: BTreeMap<(String, String, String), Vec<u8>> = expected.iter().filter(|(k, _)| k.1 == name).map(|(k, v)| (k.clone(), v.clone())).collect();
        if only.values().all(|v| v.is_empty()) {
            continue;
        }
        if !show.ok() {
            return viol_obs("c08.cli.logshow.filtered.failed", format!("log show -t {} failed", name), show.brief());
        }
        if let Err((kind, msg)) = bb::verify_show(&show.stdout, &only) {
            return viol(&format!("c08.cli.logshow.filtered.{}", kind), format!("log show -t {}: {}", name, msg));
        }
    }
    let (nt, classes) = classify(&case.streams);
    let mut info = CaseInfo::new(nt).inv(env.invocations).class_if(slow_compressor, "slow-compressor-thread").class_if(with_listener, "tail-listener-attached");
    for c in classes {
        info = info.class(c);
    }
    Ok(info)
}

/// Many tasks in one group: 2 x n streams of one or two short lines each, for n just below and
/// above 64, 128 and 256 (the streams are spread over two compressor threads).
pub fn many_streams() -> Vec<Case> {
    let mut v = vec![];
    for (k, n) in [63usize, 65, 127, 129, 255, 257, 320].into_iter().enumerate() {
        let mut streams = vec![];
        for i in 0..n {
            streams.push(vec![Step::W(format!("out of task {}\n", i).into_bytes()), Step::P(if i % 7 == 0 { 600 } else { 0 }), Step::W(format!("second line of task {}\n", i).into_bytes())]);
            streams.push(vec![Step::W(format!("err of task {}\n", i).into_bytes())]);
        }
        v.push(Case { streams, rng_seed: 11 + k as u64 });
    }
    v
}

/// Megabytes written at once (far more than a pipe buffer, within one flush interval): as lines,
/// and as one unterminated line; sizes just above 1, 2, 4, 8, 16 MiB (thorough: up to 32 MiB).
pub fn volume_cases(thorough: bool) -> Vec<Case> {
    let mib = 1usize << 20;
    let sizes: Vec<usize> = if thorough {
        vec![mib + 1, 2 * mib + 3, 4 * mib, 4 * mib + 4096, 8 * mib + 1, 16 * mib + 17, 32 * mib + 5]
    } else {
        vec![mib + 1, 4 * mib + 4096, 16 * mib + 17]
    };
    sizes
        .into_iter()
        .enumerate()
        .map(|(k, total)| Case {
            streams: vec![
                vec![
                    Step::W(b"before\n".to_vec()),
                    Step::F { total, line: 100, tag: k as u32 },
                    Step::P(800),
                    Step::F { total: total / 2, line: 0, tag: 100 + k as u32 },
                    Step::W(b"\nafter\n".to_vec()),
                ],
                vec![Step::F { total: total / 4 + 7, line: 61, tag: 200 + k as u32 }],
            ],
            rng_seed: 40 + k as u64,
        })
        .collect()
}

/// Many long logs in one run: 12 (thorough: also 24) tasks, each writing 150-170 KB per stream,
/// so that `log show` has 24 / 48 archives of some length to print one after the other.
pub fn wide_show_cases(thorough: bool) -> Vec<Case> {
    let ns: &[usize] = if thorough { &[12, 24] } else { &[12] };
    ns.iter()
        .map(|&n| {
            let mut streams = vec![];
            for i in 0..n {
                streams.push(vec![Step::F { total: 150_000 + i * 1_111, line: 64, tag: 300 + 2 * i as u32 }]);
                streams.push(vec![Step::F { total: 160_000 + i * 777, line: 80, tag: 301 + 2 * i as u32 }]);
            }
            // (low bits set: no lingering processes; no slow compressor, no listener)
            Case { streams, rng_seed: 0x00FF_FFFF_FFFF | (1 << 40) | (1 << 50) }
        })
        .collect()
}

pub fn golden() -> Vec<Case> {
    vec![
        Case {
            streams: vec![vec![Step::W(b"AAA".to_vec()), Step::P(700), Step::W(b"BBB\n".to_vec())], vec![]],
            rng_seed: 1,
        },
        Case {
            streams: vec![
                vec![Step::W(b"x\n".to_vec()), Step::P(501), Step::W(b"tail-without-newline".to_vec())],
                vec![Step::W(b"e1".to_vec()), Step::P(1200), Step::W(b"e2".to_vec())],
                vec![Step::W(b"second task\n".to_vec())],
                vec![],
            ],
            rng_seed: 2,
        },
    ]
}

pub fn run(ctx: &mut Ctx) {
    // (the volume cases move up to 100 MiB through a debug build)
    ctx.hang_limit = std::time::Duration::from_secs(900);
    ctx.rule = "1-4 concurrent tasks = 2-8 streams (plus fixed in-process cases with 63-320 tasks), each a script of writes (short lines, partial lines, lines > 8 KiB and > 64 KiB, 130-600 KB of poorly compressible text or binary (several zstd blocks), no final newline, binary with NUL/CR/invalid UTF-8/escape bytes, 1-16 MiB (thorough 32 MiB) at once, bare \
newlines, multi-line chunks, CRLF, unicode) and pauses biased around the 500 ms flush interval (499/500/501/700/1000/1200, mid-line included). in-process: the real process_reader + Compressor through the capture hook \
under tokio's paused clock with a seeded select order; real time: the same scripts executed by helper processes under `monorail run`, files located through the result document, `log show` parsed into blocks. \
oracle: every stored .zst decodes to exactly the concatenation of that stream's writes; log show prints exactly one header per non-empty log followed by those bytes. \
non-trivial = a pause >= 500 ms inside a line, a line > 64 KiB, binary data, or >= 3 active streams; distinct by SHA-256"
        .to_string();
    ctx.assumptions = vec![
        "in-process variant owns time (paused clock) but not the two compressor OS threads".into(),
        "real-time variant judges only tasks reported `success`".into(),
    ];
    ctx.drive_all("golden-inproc", golden(), "golden regression cases", check_inproc);
    ctx.drive_all("many-streams-inproc", many_streams(), "255-640 streams on one compressor (around 128 and 256 streams per thread)", check_inproc);
    let n = ctx.n(3000, 200_000);
    ctx.drive("inproc", || strategy(4, 10), n, check_inproc);
    ctx.drive_all("volume-inproc", volume_cases(ctx.thorough()), "1-16 MiB (thorough: 32 MiB) written at once, as 100-byte lines and as one unterminated line", check_inproc);
    ctx.drive_all("golden-cli", golden(), "golden regression cases (real time)", check_cli);
    ctx.drive_all("repeated-command-cli", repeat_cases(), "one invocation executing the same command twice for a target (-c c0 c1 c0, or a sequence plus -c), the executions writing 2 KB-300 KB and one line", check_repeat);
    ctx.drive_all("wide-show-cli", wide_show_cases(ctx.thorough()), "12 (thorough: 24) tasks with 150-170 KB per stream: `log show` over 24 / 48 long archives", check_cli);
    ctx.drive_all("volume-cli", volume_cases(ctx.thorough()), "1-16 MiB (thorough: 32 MiB) written at once by a helper process", check_cli);
    let n2 = ctx.n(80, 500);
    ctx.drive("cli", || strategy(3, 6), n2, check_cli);
}

pub fn replay(ctx: &Ctx, label: &str, case: Value) -> Result<(), String> {
    if label.contains("repeated-command") {
        let rc: RepeatCase = serde_json::from_value(case).map_err(|e| e.to_string())?;
        let r = check_repeat(&rc, 0);
        ctx.replay_one(label, &rc, r);
        return Ok(());
    }
    let c: Case = serde_json::from_value(case).map_err(|e| e.to_string())?;
    let r = if label.contains("cli") { check_cli(&c, 0) } else { check_inproc(&c, 0) };
    ctx.replay_one(label, &c, r);
    Ok(())
}
