//! The harness's own JSON writer: one value, many serialisations.

use serde::{Deserialize, Serialize};
use serde_json::Value;

#[derive(Debug, Clone, Serialize, Deserialize, PartialEq)]
pub enum Ws {
    Compact,
    Pretty(usize),
    /// pseudo-random inter-token whitespace from this seed
    Random(u64),
}

#[derive(Debug, Clone, Serialize, Deserialize, PartialEq)]
pub enum Escapes {
    None,
    NonAscii,
    SomeAscii,
    /// the less common spellings: `\/` for a slash, upper-case hex digits, `\u00XX` for
    /// printable ASCII, `\b` / `\f` style escapes written as `\u0008` / `\u000C`
    Exotic,
}

#[derive(Debug, Clone, Serialize, Deserialize, PartialEq)]
pub enum PadPos {
    Before,
    Inside,
    After,
}

#[derive(Debug, Clone, Serialize, Deserialize, PartialEq)]
pub struct Layout {
    pub ws: Ws,
    /// 0 = keep the value's key order, otherwise shuffle every object with this seed
    pub key_seed: u64,
    pub escapes: Escapes,
    /// pad with whitespace up to this total size (0 = no padding)
    pub pad_to: usize,
    pub pad_pos: PadPos,
    /// (boundary, delta, occurrence): insert whitespace inside the document so that the
    /// first byte of the n-th non-ASCII character lands at `k*boundary - 1 + delta`
    /// (delta 0 = the character straddles the boundary)
    #[serde(default)]
    pub align_non_ascii: Option<(usize, i32, u16)>,
}

impl Layout {
    pub fn compact() -> Layout {
        Layout {
            ws: Ws::Compact,
            key_seed: 0,
            escapes: Escapes::None,
            pad_to: 0,
            pad_pos: PadPos::After,
            align_non_ascii: None,
        }
    }
}

struct Rng(u64);
impl Rng {
    fn next(&mut self) -> u64 {
        // splitmix64
        self.0 = self.0.wrapping_add(0x9E37_79B9_7F4A_7C15);
        let mut z = self.0;
        z = (z ^ (z >> 30)).wrapping_mul(0xBF58_476D_1CE4_E5B9);
        z = (z ^ (z >> 27)).wrapping_mul(0x94D0_49BB_1331_11EB);
        z ^ (z >> 31)
    }
}

struct W<'a> {
    out: String,
    layout: &'a Layout,
    ws_rng: Rng,
    key_rng: Rng,
    esc_rng: Rng,
    /// byte offset of the first structural gap inside the document (for inside padding)
    first_gap: Option<usize>,
}

impl<'a> W<'a> {
    fn gap(&mut self, depth: usize, newline_ok: bool) {
        if self.first_gap.is_none() {
            self.first_gap = Some(self.out.len());
        }
        match &self.layout.ws {
            Ws::Compact => {}
            Ws::Pretty(ind) => {
                if newline_ok {
                    self.out.push('\n');
                    for _ in 0..(ind * depth) {
                        self.out.push(' ');
                    }
                } else {
                    self.out.push(' ');
                }
            }
            Ws::Random(_) => {
                let opts = ["", " ", "\n", "\t", "  ", " \n ", "\r\n", "\n\n\t", "\r", "\r\t"];
                let k = (self.ws_rng.next() % opts.len() as u64) as usize;
                self.out.push_str(opts[k]);
            }
        }
    }

    fn string(&mut self, s: &str) {
        self.out.push('"');
        for c in s.chars() {
            match c {
                '"' => self.out.push_str("\\\""),
                '\\' => self.out.push_str("\\\\"),
                '\n' => self.out.push_str("\\n"),
                '\r' => self.out.push_str("\\r"),
                '\t' => self.out.push_str("\\t"),
                c if (c as u32) < 0x20 => self.out.push_str(&format!("\\u{:04x}", c as u32)),
                '/' if self.layout.escapes == Escapes::Exotic && self.esc_rng.next() % 2 == 0 => self.out.push_str("\\/"),
                c if self.layout.escapes == Escapes::Exotic && (!c.is_ascii() || self.esc_rng.next() % 4 == 0) => {
                    let mut buf = [0u16; 2];
                    for u in c.encode_utf16(&mut buf) {
                        self.out.push_str(&format!("\\u{:04X}", u));
                    }
                }
                c => {
                    let esc = match self.layout.escapes {
                        Escapes::None | Escapes::Exotic => false,
                        Escapes::NonAscii => !c.is_ascii(),
                        Escapes::SomeAscii => !c.is_ascii() || self.esc_rng.next() % 3 == 0,
                    };
                    if esc {
                        let mut buf = [0u16; 2];
                        for u in c.encode_utf16(&mut buf) {
                            self.out.push_str(&format!("\\u{:04x}", u));
                        }
                    } else {
                        self.out.push(c);
                    }
                }
            }
        }
        self.out.push('"');
    }

    fn value(&mut self, v: &Value, depth: usize) {
        match v {
            Value::Null => self.out.push_str("null"),
            Value::Bool(b) => self.out.push_str(if *b { "true" } else { "false" }),
            Value::Number(n) => self.out.push_str(&n.to_string()),
            Value::String(s) => self.string(s),
            Value::Array(a) => {
                self.out.push('[');
                for (i, x) in a.iter().enumerate() {
                    if i > 0 {
                        self.out.push(',');
                    }
                    self.gap(depth + 1, true);
                    self.value(x, depth + 1);
                }
                if !a.is_empty() {
                    self.gap(depth, true);
                }
                self.out.push(']');
            }
            Value::Object(o) => {
                self.out.push('{');
                let mut keys: Vec<&String> = o.keys().collect();
                if self.layout.key_seed != 0 {
                    // Fisher-Yates
                    for i in (1..keys.len()).rev() {
                        let j = (self.key_rng.next() % (i as u64 + 1)) as usize;
                        keys.swap(i, j);
                    }
                }
                for (i, k) in keys.iter().enumerate() {
                    if i > 0 {
                        self.out.push(',');
                    }
                    self.gap(depth + 1, true);
                    self.string(k);
                    self.gap(depth + 1, false);
                    self.out.push(':');
                    self.gap(depth + 1, false);
                    self.value(&o[*k], depth + 1);
                }
                if !keys.is_empty() {
                    self.gap(depth, true);
                }
                self.out.push('}');
            }
        }
    }
}

pub fn write(v: &Value, layout: &Layout) -> Vec<u8> {
    let seed = match layout.ws {
        Ws::Random(s) => s,
        _ => 1,
    };
    let mut w = W {
        out: String::new(),
        layout,
        ws_rng: Rng(seed),
        key_rng: Rng(layout.key_seed),
        esc_rng: Rng(layout.key_seed ^ 0xABCD),
        first_gap: None,
    };
    w.value(v, 0);
    let first_gap = w.first_gap.unwrap_or(0);
    let mut s = w.out;
    if let Some((boundary, delta, occ)) = layout.align_non_ascii {
        let gap = first_gap.max(1).min(s.len());
        let positions: Vec<usize> = s.char_indices().filter(|(i, c)| *i >= gap && !c.is_ascii()).map(|(i, _)| i).collect();
        if !positions.is_empty() && boundary > 0 {
            let p = positions[(occ as usize) % positions.len()];
            // smallest k*boundary - 1 + delta that is >= p
            let mut target = boundary as i64 - 1 + delta as i64;
            while target < p as i64 {
                target += boundary as i64;
            }
            let n = (target - p as i64) as usize;
            let pad: String = (0..n).map(|i| if i % 89 == 88 { '\n' } else { ' ' }).collect();
            s.insert_str(gap, &pad);
        }
    }
    if layout.pad_to > s.len() {
        let n = layout.pad_to - s.len();
        let mut pad = String::with_capacity(n);
        for i in 0..n {
            pad.push(if i % 97 == 96 { '\n' } else { ' ' });
        }
        match layout.pad_pos {
            PadPos::Before => s = format!("{}{}", pad, s),
            PadPos::After => s.push_str(&pad),
            PadPos::Inside => s.insert_str(first_gap.max(1).min(s.len()), &pad),
        }
    }
    s.into_bytes()
}

#[cfg(test)]
mod tests {
    use super::*;
    #[test]
    fn roundtrip() {
        let v: Value = serde_json::from_str(r#"{"a":[1,2,{"b":"é x\"y/z 𝄞"}],"c/d":{"d":null,"e":true}}"#).unwrap();
        for ws in [Ws::Compact, Ws::Pretty(2), Ws::Random(7)] {
            for esc in [Escapes::None, Escapes::NonAscii, Escapes::SomeAscii, Escapes::Exotic] {
                for (pad_to, pos) in [(0, PadPos::After), (9000, PadPos::Before), (9000, PadPos::Inside), (20000, PadPos::After)] {
                    let l = Layout { ws: ws.clone(), key_seed: 5, escapes: esc.clone(), pad_to, pad_pos: pos, align_non_ascii: None };
                    let b = write(&v, &l);
                    let back: Value = serde_json::from_slice(&b).unwrap();
                    assert_eq!(back, v);
                    if pad_to > 0 {
                        assert_eq!(b.len(), pad_to);
                    }
                }
            }
        }
    }
}
