//! Generic driver: proptest runners on worker threads, bounded-exhaustive
//! iterators, statistics, known findings, replay files and evidence.

use proptest::strategy::Strategy;
use proptest::test_runner::{Config, RngSeed, TestCaseError, TestError, TestRunner};
use serde::Serialize;
use serde_json::{json, Value};
use sha2::{Digest, Sha256};
use std::collections::{BTreeMap, HashSet};
use std::fmt::Debug;
use std::path::PathBuf;
use std::sync::atomic::{AtomicBool, AtomicU64, AtomicUsize, Ordering};
use std::sync::Mutex;
use std::time::{Duration, Instant};

pub const VERIF_ROOT: &str = "/verif";

/// What a passing case reports back.
#[derive(Debug, Default, Clone)]
pub struct CaseInfo {
    pub nontrivial: bool,
    pub classes: Vec<String>,
    /// extra work units (e.g. CLI invocations) performed by the case
    pub invocations: u64,
    /// individually judged in-process evaluations inside the case (e.g. one per tampered byte)
    pub weight: u64,
}
impl CaseInfo {
    pub fn new(nontrivial: bool) -> Self {
        CaseInfo {
            nontrivial,
            classes: vec![],
            invocations: 0,
            weight: 0,
        }
    }
    pub fn class(mut self, c: &str) -> Self {
        self.classes.push(c.to_string());
        self
    }
    pub fn class_if(mut self, cond: bool, c: &str) -> Self {
        if cond {
            self.classes.push(c.to_string());
        }
        self
    }
    pub fn inv(mut self, n: u64) -> Self {
        self.invocations += n;
        self
    }
}

#[derive(Debug, Clone)]
pub struct Violation {
    pub msg: String,
    /// stable signature used to match entries of known_findings.json
    pub signature: String,
    pub observed: Value,
}
impl Violation {
    pub fn new(signature: &str, msg: String) -> Self {
        Violation {
            msg,
            signature: signature.to_string(),
            observed: Value::Null,
        }
    }
    pub fn with(mut self, observed: Value) -> Self {
        self.observed = observed;
        self
    }
}

/// The check could not decide (harness trouble, not a property violation).
#[derive(Debug, Clone)]
pub struct Inconclusive(pub String);

pub type CheckResult = Result<CaseInfo, CheckError>;
/// Runs one check; a panic inside the harness (a process that could not be spawned, a scratch
/// directory that could not be created, ...) says nothing about the property: inconclusive.
pub fn guarded(f: impl FnOnce() -> CheckResult) -> CheckResult {
    match std::panic::catch_unwind(std::panic::AssertUnwindSafe(f)) {
        Ok(r) => r,
        Err(p) => {
            let msg = p.downcast_ref::<String>().cloned().or_else(|| p.downcast_ref::<&str>().map(|s| s.to_string())).unwrap_or_else(|| "?".into());
            Err(CheckError::Inconclusive(format!("panic inside the harness: {}", msg)))
        }
    }
}

#[derive(Debug, Clone)]
pub enum CheckError {
    Violation(Violation),
    Inconclusive(String),
}
impl From<Violation> for CheckError {
    fn from(v: Violation) -> Self {
        CheckError::Violation(v)
    }
}
impl From<Inconclusive> for CheckError {
    fn from(v: Inconclusive) -> Self {
        CheckError::Inconclusive(v.0)
    }
}
pub fn viol<T>(signature: &str, msg: String) -> Result<T, CheckError> {
    Err(CheckError::Violation(Violation::new(signature, msg)))
}
pub fn viol_obs<T>(signature: &str, msg: String, observed: Value) -> Result<T, CheckError> {
    Err(CheckError::Violation(
        Violation::new(signature, msg).with(observed),
    ))
}
pub fn inconclusive<T>(msg: String) -> Result<T, CheckError> {
    Err(CheckError::Inconclusive(msg))
}

#[derive(Debug, Clone, serde::Deserialize)]
pub struct KnownFinding {
    pub property: String,
    pub signature: String,
    pub what: String,
}

#[derive(Default)]
struct Stats {
    evaluations: u64,
    invocations: u64,
    inner: u64,
    nontrivial: HashSet<u64>,
    classes: BTreeMap<String, u64>,
    samples: Vec<(usize, Value)>, // (serialized len, case)
    sample_candidates: u64,
    subspaces: Vec<Value>,
    known_hits: BTreeMap<String, u64>,
    violations: Vec<(String, Violation, Value)>, // label, violation, case
    inconclusive: Vec<String>,
}

pub struct Ctx {
    pub id: String,
    pub tier: String,
    pub seed: u64,
    pub jobs: usize,
    pub level: String,
    pub rule: String,
    pub assumptions: Vec<String>,
    pub strict: bool, // replay mode: known findings are not tolerated
    known: Vec<KnownFinding>,
    stats: Mutex<Stats>,
    start: Instant,
    stop: AtomicBool,
    shrunk: AtomicBool,
    pub hang_is_violation: bool,
    pub hang_limit: Duration,
    /// upper bound for the time spent shrinking a counterexample
    pub shrink_budget: Duration,
}

fn case_hash(v: &Value) -> u64 {
    let s = serde_json::to_string(v).unwrap_or_default();
    let d = Sha256::digest(s.as_bytes());
    u64::from_le_bytes(d[..8].try_into().unwrap())
}

impl Ctx {
    pub fn new(id: &str, tier: &str, level: &str) -> Self {
        let seed = std::env::var("VERIF_SEED")
            .ok()
            .and_then(|s| s.trim().parse::<i64>().ok())
            .map(|v| v as u64)
            .unwrap_or(0);
        let jobs = std::env::var("VERIF_JOBS")
            .ok()
            .and_then(|s| s.parse::<usize>().ok())
            .filter(|&j| j >= 1)
            .unwrap_or(16);
        let known = load_known(id);
        Ctx {
            id: id.to_string(),
            tier: tier.to_string(),
            seed,
            jobs,
            level: level.to_string(),
            rule: String::new(),
            assumptions: vec![],
            strict: false,
            known,
            stats: Mutex::new(Stats::default()),
            start: Instant::now(),
            stop: AtomicBool::new(false),
            shrunk: AtomicBool::new(false),
            hang_is_violation: false,
            hang_limit: Duration::from_secs(120),
            shrink_budget: shrink_budget(),
        }
    }
    pub fn thorough(&self) -> bool {
        self.tier == "thorough"
    }
    /// pick a count by tier
    pub fn n(&self, quick: u64, thorough: u64) -> u64 {
        let scale = std::env::var("VERIF_SCALE")
            .ok()
            .and_then(|s| s.parse::<f64>().ok())
            .unwrap_or(1.0);
        let base = if self.thorough() { thorough } else { quick };
        ((base as f64) * scale).ceil().max(1.0) as u64
    }
    pub fn failed(&self) -> bool {
        self.stop.load(Ordering::SeqCst)
    }

    fn is_known(&self, v: &Violation) -> Option<&KnownFinding> {
        if self.strict {
            return None;
        }
        self.known
            .iter()
            .find(|k| k.property == self.id && k.signature == v.signature)
    }

    /// Record the outcome of one executed case. Returns Err(reason) if the case
    /// must count as failing for proptest (so that it shrinks).
    fn record<C: Serialize>(&self, label: &str, case: &C, res: &CheckResult) -> Result<(), String> {
        match res {
            Ok(info) => {
                if self.failed() {
                    return Ok(()); // shrinking or winding down: stop counting
                }
                let cv = serde_json::to_value(case).unwrap_or(Value::Null);
                let mut st = self.stats.lock().unwrap();
                st.evaluations += 1;
                st.invocations += info.invocations;
                st.inner += info.weight;
                for c in &info.classes {
                    *st.classes.entry(format!("{}:{}", label, c)).or_insert(0) += 1;
                }
                if info.nontrivial {
                    let h = case_hash(&cv);
                    if st.nontrivial.insert(h) {
                        st.sample_candidates += 1;
                        if st.sample_candidates <= 200 {
                            let len = serde_json::to_string(&cv).map(|s| s.len()).unwrap_or(0);
                            st.samples.push((len, json!({"label": label, "case": cv})));
                            st.samples.sort_by_key(|x| x.0);
                            st.samples.truncate(12);
                        }
                    }
                }
                Ok(())
            }
            Err(CheckError::Violation(v)) if self.id != "C14" && foreign_port_clash(v) => {
                // somebody else on this machine sat on the case's lock port: says nothing about monorail
                let mut st = self.stats.lock().unwrap();
                if st.inconclusive.len() < 20 {
                    st.inconclusive.push(format!("{}: lock port was taken by a foreign process ([{}])", label, v.signature));
                }
                Ok(())
            }
            Err(CheckError::Violation(v)) => {
                if let Some(k) = self.is_known(v) {
                    let mut st = self.stats.lock().unwrap();
                    if !self.failed() {
                        st.evaluations += 1;
                    }
                    *st.known_hits.entry(k.signature.clone()).or_insert(0) += 1;
                    return Ok(());
                }
                Err(format!("[{}] {}", v.signature, v.msg))
            }
            Err(CheckError::Inconclusive(m)) => {
                let mut st = self.stats.lock().unwrap();
                if st.inconclusive.len() < 20 {
                    st.inconclusive.push(format!("{}: {}", label, m));
                }
                Ok(())
            }
        }
    }

    /// Random search with shrinking: `cases` cases in total, split over workers.
    pub fn drive<S, F>(&self, label: &str, make_strategy: impl Fn() -> S + Sync, cases: u64, check: F)
    where
        S: Strategy,
        S::Value: Serialize + Debug + Clone,
        F: Fn(&S::Value, usize) -> CheckResult + Sync,
    {
        if self.failed() {
            return;
        }
        let t_label = Instant::now();
        let jobs = self.jobs.min(cases.max(1) as usize).max(1);
        let per = cases / jobs as u64;
        let rem = cases % jobs as u64;
        let label_hash = {
            let d = Sha256::digest(label.as_bytes());
            u64::from_le_bytes(d[..8].try_into().unwrap())
        };
        let current: Vec<Mutex<Option<(Instant, Value)>>> =
            (0..jobs).map(|_| Mutex::new(None)).collect();
        let done = AtomicUsize::new(0);
        std::thread::scope(|s| {
            for w in 0..jobs {
                let n = per + if (w as u64) < rem { 1 } else { 0 };
                if n == 0 {
                    done.fetch_add(1, Ordering::SeqCst);
                    continue;
                }
                let check = &check;
                let make_strategy = &make_strategy;
                let current = &current;
                let done = &done;
                s.spawn(move || {
                    let seed = self
                        .seed
                        .wrapping_mul(0x9E37_79B9_7F4A_7C15)
                        .wrapping_add(label_hash)
                        .wrapping_add((w as u64).wrapping_mul(0xD1B5_4A32_D192_ED03));
                    let config = Config {
                        cases: n as u32,
                        failure_persistence: None,
                        rng_seed: RngSeed::Fixed(seed),
                        max_shrink_iters: shrink_iters(),
                        max_global_rejects: 100_000,
                        verbose: 0,
                        ..Config::default()
                    };
                    let mut runner = TestRunner::new(config);
                    let strategy = make_strategy();
                    let last_fail: Mutex<Option<Violation>> = Mutex::new(None);
                    let in_failure = AtomicBool::new(false);
                    let shrink_deadline: Mutex<Option<Instant>> = Mutex::new(None);
                    let r = runner.run(&strategy, |case| {
                        // another worker failed: wind down quickly
                        if self.failed() && !in_failure.load(Ordering::SeqCst) {
                            return Ok(());
                        }
                        if in_failure.load(Ordering::SeqCst) {
                            // another worker already delivered a shrunk counterexample
                            if self.shrunk.load(Ordering::SeqCst) {
                                return Ok(());
                            }
                            // shrinking: bound total time
                            let dl = *shrink_deadline.lock().unwrap();
                            if let Some(dl) = dl {
                                if Instant::now() > dl {
                                    return Ok(()); // stop shrinking further
                                }
                            }
                        }
                        *current[w].lock().unwrap() = Some((
                            Instant::now(),
                            serde_json::to_value(&case).unwrap_or(Value::Null),
                        ));
                        let t_case = Instant::now();
                        let res = guarded(|| check(&case, w));
                        *current[w].lock().unwrap() = None;
                        if let Ok(ms) = std::env::var("VERIF_DEBUG_SLOW") {
                            if t_case.elapsed().as_millis() as u64 > ms.parse::<u64>().unwrap_or(10_000) {
                                eprintln!("slow case ({} ms): {}", t_case.elapsed().as_millis(), serde_json::to_string(&case).unwrap_or_default());
                            }
                        }
                        match self.record(label, &case, &res) {
                            Ok(()) => Ok(()),
                            Err(reason) => {
                                if let Err(CheckError::Violation(v)) = res {
                                    *last_fail.lock().unwrap() = Some(v);
                                }
                                if !in_failure.swap(true, Ordering::SeqCst) {
                                    self.stop.store(true, Ordering::SeqCst);
                                    *shrink_deadline.lock().unwrap() =
                                        Some(Instant::now() + self.shrink_budget);
                                }
                                Err(TestCaseError::fail(reason))
                            }
                        }
                    });
                    if let Err(TestError::Fail(_reason, value)) = r {
                        if self.shrunk.load(Ordering::SeqCst) {
                            // one counterexample per run is enough
                            done.fetch_add(1, Ordering::SeqCst);
                            return;
                        }
                        // re-run the minimal case to get its own violation record
                        let res = guarded(|| check(&value, w));
                        let v = match res {
                            Err(CheckError::Violation(v)) if self.is_known(&v).is_none() => Some(v),
                            _ => last_fail.lock().unwrap().clone(),
                        };
                        let cv = serde_json::to_value(&value).unwrap_or(Value::Null);
                        match v {
                            Some(v) => {
                                if !self.shrunk.swap(true, Ordering::SeqCst) {
                                    self.stats.lock().unwrap().violations.push((label.to_string(), v, cv));
                                }
                            }
                            // no oracle ever produced a violation for this failure (the harness
                            // itself panicked, e.g. a process could not be spawned), and the case
                            // passes when run again: says nothing about the property
                            None => self.stats.lock().unwrap().inconclusive.push(format!(
                                "{}: a case failed without a violation record (panic inside the harness) and passed when run again: {}",
                                label, cv
                            )),
                        }
                    } else if let Err(TestError::Abort(reason)) = r {
                        let mut st = self.stats.lock().unwrap();
                        st.inconclusive
                            .push(format!("{}: proptest aborted: {}", label, reason));
                    }
                    done.fetch_add(1, Ordering::SeqCst);
                });
            }
            // watchdog
            s.spawn(|| {
                while done.load(Ordering::SeqCst) < jobs {
                    std::thread::sleep(Duration::from_millis(50));
                    for slot in current.iter() {
                        let g = slot.lock().unwrap();
                        if let Some((t0, cv)) = &*g {
                            if t0.elapsed() > self.hang_limit {
                                let cv = cv.clone();
                                drop(g);
                                self.hang(label, cv);
                            }
                        }
                    }
                }
            });
        });
        self.stats.lock().unwrap().subspaces.push(json!({
            "label": label, "space": "random search (proptest)", "cases_requested": cases,
            "wall_s": (t_label.elapsed().as_secs_f64() * 100.0).round() / 100.0
        }));
    }

    fn hang(&self, label: &str, case: Value) -> ! {
        if self.hang_is_violation {
            let v = Violation::new(
                "hang",
                format!("case did not finish within {:?}", self.hang_limit),
            );
            self.stats
                .lock()
                .unwrap()
                .violations
                .push((label.to_string(), v, case));
            let code = self.finish_inner();
            std::process::exit(code);
        } else {
            println!(
                "INCONCLUSIVE property={} label={} a case exceeded the watchdog limit {:?}",
                self.id, label, self.hang_limit
            );
            std::process::exit(2);
        }
    }

    /// Bounded-exhaustive enumeration over a materialized list.
    pub fn drive_all<C, F>(&self, label: &str, items: Vec<C>, exhaustive_of: &str, check: F)
    where
        C: Serialize + Debug + Clone + Sync,
        F: Fn(&C, usize) -> CheckResult + Sync,
    {
        let total = items.len();
        self.drive_range(label, total, exhaustive_of, |i| items[i].clone(), check)
    }

    /// Bounded-exhaustive enumeration: item(i) for every i in 0..total is checked.
    pub fn drive_range<C, G, F>(&self, label: &str, total: usize, exhaustive_of: &str, item: G, check: F)
    where
        C: Serialize + Debug + Clone,
        G: Fn(usize) -> C + Sync,
        F: Fn(&C, usize) -> CheckResult + Sync,
    {
        if self.failed() {
            return;
        }
        let next = AtomicUsize::new(0);
        let jobs = self.jobs.min(total.max(1));
        let first_fail: Mutex<Option<(usize, Violation)>> = Mutex::new(None);
        let current: Vec<Mutex<Option<(Instant, usize)>>> =
            (0..jobs).map(|_| Mutex::new(None)).collect();
        let done = AtomicUsize::new(0);
        let completed = AtomicU64::new(0);
        const CHUNK: usize = 64;
        std::thread::scope(|s| {
            for w in 0..jobs {
                let item = &item;
                let next = &next;
                let check = &check;
                let first_fail = &first_fail;
                let current = &current;
                let done = &done;
                let completed = &completed;
                s.spawn(move || {
                    'outer: loop {
                        let base = next.fetch_add(CHUNK, Ordering::SeqCst);
                        if base >= total {
                            break;
                        }
                        for i in base..(base + CHUNK).min(total) {
                            // once a failure exists only smaller indices matter
                            if let Some((fi, _)) = &*first_fail.lock().unwrap() {
                                if i > *fi {
                                    break 'outer;
                                }
                            }
                            let it = item(i);
                            *current[w].lock().unwrap() = Some((Instant::now(), i));
                            let res = guarded(|| check(&it, w));
                            *current[w].lock().unwrap() = None;
                            completed.fetch_add(1, Ordering::SeqCst);
                            if let Err(_reason) = self.record(label, &it, &res) {
                                if let Err(CheckError::Violation(v)) = res {
                                    let mut ff = first_fail.lock().unwrap();
                                    if ff.as_ref().map(|(fi, _)| i < *fi).unwrap_or(true) {
                                        *ff = Some((i, v));
                                    }
                                }
                            }
                        }
                    }
                    done.fetch_add(1, Ordering::SeqCst);
                });
            }
            s.spawn(|| {
                while done.load(Ordering::SeqCst) < jobs {
                    std::thread::sleep(Duration::from_millis(50));
                    for slot in current.iter() {
                        let g = slot.lock().unwrap();
                        if let Some((t0, i)) = &*g {
                            if t0.elapsed() > self.hang_limit {
                                let cv = serde_json::to_value(&item(*i)).unwrap_or(Value::Null);
                                drop(g);
                                self.hang(label, cv);
                            }
                        }
                    }
                }
            });
        });
        let ff = first_fail.into_inner().unwrap();
        let complete = ff.is_none() && completed.load(Ordering::SeqCst) as usize == total;
        let mut st = self.stats.lock().unwrap();
        st.subspaces.push(json!({
            "label": label, "space": exhaustive_of, "size": total, "exhaustive": complete
        }));
        if let Some((i, v)) = ff {
            self.stop.store(true, Ordering::SeqCst);
            let cv = serde_json::to_value(&item(i)).unwrap_or(Value::Null);
            st.violations.push((label.to_string(), v, cv));
        }
    }

    /// Replay one stored case through a checker (strict: known findings count).
    pub fn replay_one<C: Serialize>(&self, label: &str, case: &C, res: CheckResult) {
        match &res {
            Ok(_) => {
                let _ = self.record(label, case, &res);
            }
            Err(CheckError::Violation(v)) => {
                let cv = serde_json::to_value(case).unwrap_or(Value::Null);
                self.stats
                    .lock()
                    .unwrap()
                    .violations
                    .push((label.to_string(), v.clone(), cv));
            }
            Err(CheckError::Inconclusive(m)) => {
                self.stats.lock().unwrap().inconclusive.push(m.clone());
            }
        }
    }

    pub fn note_subspace(&self, v: Value) {
        self.stats.lock().unwrap().subspaces.push(v);
    }

    pub fn add_fuzz_stats(&self, v: Value) {
        self.stats.lock().unwrap().subspaces.push(v);
    }

    fn finish_inner(&self) -> i32 {
        let st = self.stats.lock().unwrap();
        let wall = self.start.elapsed().as_secs_f64();
        let mut code = 0;
        let mut replay_paths = vec![];
        for (label, v, case) in st.violations.iter() {
            let body = json!({
                "property": self.id, "tier": self.tier, "seed": self.seed, "label": label,
                "signature": v.signature, "message": v.msg, "observed": v.observed, "case": case,
            });
            let h = case_hash(&body);
            let dir = PathBuf::from(VERIF_ROOT).join("replays");
            let _ = std::fs::create_dir_all(&dir);
            let p = dir.join(format!("{}-{:016x}.json", self.id, h));
            let _ = std::fs::write(&p, serde_json::to_string_pretty(&body).unwrap());
            replay_paths.push(p.clone());
            println!("violation detail: [{}] {}", v.signature, v.msg);
            println!("VIOLATION property={} replay={}", self.id, p.display());
            code = 1;
        }
        for k in &self.known {
            if k.property == self.id {
                let hits = st.known_hits.get(&k.signature).copied().unwrap_or(0);
                println!(
                    "KNOWN-FINDING: property={} {} (signature {}, {} generated cases excluded)",
                    self.id, k.what, k.signature, hits
                );
            }
        }
        if code == 0 && !st.inconclusive.is_empty() {
            for m in st.inconclusive.iter().take(5) {
                println!("inconclusive case: {}", m);
            }
        }
        // evidence
        let mut samples: Vec<Value> = st.samples.iter().take(3).map(|x| x.1.clone()).collect();
        if samples.is_empty() && st.evaluations > 0 {
            samples.push(json!("no non-trivial case was generated"));
        }
        let exhaustive = !st.subspaces.is_empty()
            && st
                .subspaces
                .iter()
                .any(|s| s.get("exhaustive").and_then(|b| b.as_bool()) == Some(true));
        let ev = json!({
            "property_id": self.id,
            "tier": self.tier,
            "seed": self.seed as i64,
            "level": self.level,
            "coverage": {
                "evaluations": st.evaluations,
                "distinct_nontrivial": st.nontrivial.len(),
                "rule": self.rule,
                "samples": samples,
                "classes": st.classes,
                "cli_invocations": st.invocations,
                "inner_evaluations": st.inner,
                "exhaustive_subspaces": st.subspaces,
                "has_exhaustive_subspace": exhaustive,
                "known_finding_cases_excluded": st.known_hits,
                "inconclusive_cases": st.inconclusive.len(),
                "jobs": self.jobs,
            },
            "assumptions": self.assumptions,
            "wall_s": (wall * 1000.0).round() / 1000.0,
            "violations": st.violations.len(),
        });
        // (scratch runs against patched copies of /repo - tools/mutant2.sh - keep their records out of /verif/evidence)
        let dir = std::env::var("MRV_EVIDENCE_DIR").map(PathBuf::from).unwrap_or_else(|_| PathBuf::from(VERIF_ROOT).join("evidence"));
        let _ = std::fs::create_dir_all(&dir);
        let p = dir.join(format!("{}.json", self.id));
        let tmp = dir.join(format!(".{}.json.tmp{}", self.id, std::process::id()));
        if std::fs::write(&tmp, serde_json::to_string_pretty(&ev).unwrap()).is_ok() {
            let _ = std::fs::rename(&tmp, &p);
        }
        println!(
            "{} {} tier={} seed={} evaluations={} distinct_nontrivial={} cli_invocations={} violations={} wall={:.1}s",
            if code == 0 { "OK" } else { "FAIL" },
            self.id, self.tier, self.seed, st.evaluations, st.nontrivial.len(), st.invocations,
            st.violations.len(), wall
        );
        if code == 0 && st.evaluations == 0 {
            println!("INCONCLUSIVE property={} nothing was evaluated", self.id);
            return 2;
        }
        if code == 0 && st.inconclusive.len() as u64 > st.evaluations / 2 + 5 {
            println!(
                "INCONCLUSIVE property={} too many undecided cases ({})",
                self.id,
                st.inconclusive.len()
            );
            return 2;
        }
        code
    }

    /// Write evidence and replay files; returns the process exit code.
    pub fn finish(&self) -> i32 {
        self.finish_inner()
    }
}

fn shrink_iters() -> u32 {
    std::env::var("VERIF_SHRINK_ITERS")
        .ok()
        .and_then(|s| s.parse().ok())
        .unwrap_or(2000)
}
fn shrink_budget() -> Duration {
    Duration::from_secs(
        std::env::var("VERIF_SHRINK_SECS")
            .ok()
            .and_then(|s| s.parse().ok())
            .unwrap_or(60),
    )
}

/// The lock is a TCP bind on a per-case port; outside C14 no case has two invocations racing
/// for it, so "address already in use" can only come from an unrelated process.
fn foreign_port_clash(v: &Violation) -> bool {
    let text = format!("{} {}", v.msg, v.observed);
    text.contains("Lock acquisition failed: Address already in use")
}

fn load_known(id: &str) -> Vec<KnownFinding> {
    let p = PathBuf::from(VERIF_ROOT).join("known_findings.json");
    let Ok(s) = std::fs::read_to_string(p) else {
        return vec![];
    };
    let Ok(v) = serde_json::from_str::<Value>(&s) else {
        return vec![];
    };
    let mut out = vec![];
    if let Some(arr) = v.get("known").and_then(|a| a.as_array()) {
        for k in arr {
            if let Ok(kf) = serde_json::from_value::<KnownFinding>(k.clone()) {
                if kf.property == id {
                    out.push(kf);
                }
            }
        }
    }
    out
}

/// Map a 16-bit generated index monotonically onto 0..len (shrinks towards 0).
pub fn pick(idx: u16, len: usize) -> usize {
    if len == 0 {
        0
    } else {
        ((idx as usize) * len) >> 16
    }
}
