//! The executable every generated command runs. Looks its behaviour up in the
//! case's plan file and leaves start/end trace records with CLOCK_MONOTONIC
//! time stamps (system-wide on Linux, hence comparable across processes).

use serde_json::{json, Value};
use std::io::Write;
use std::path::{Path, PathBuf};
use std::time::{Duration, Instant};

fn monotonic_ns() -> u128 {
    let mut ts = libc::timespec {
        tv_sec: 0,
        tv_nsec: 0,
    };
    unsafe {
        libc::clock_gettime(libc::CLOCK_MONOTONIC, &mut ts);
    }
    (ts.tv_sec as u128) * 1_000_000_000 + ts.tv_nsec as u128
}

fn write_atomic(dir: &Path, name: &str, v: &Value) {
    let tmp = dir.join(format!(".{}.tmp", name));
    let dst = dir.join(name);
    if std::fs::write(&tmp, serde_json::to_vec(v).unwrap()).is_ok() {
        let _ = std::fs::rename(&tmp, &dst);
    }
}

fn unhex(s: &str) -> Vec<u8> {
    let b = s.as_bytes();
    let mut out = Vec::with_capacity(b.len() / 2);
    let val = |c: u8| match c {
        b'0'..=b'9' => c - b'0',
        b'a'..=b'f' => c - b'a' + 10,
        b'A'..=b'F' => c - b'A' + 10,
        _ => 0,
    };
    let mut i = 0;
    while i + 1 < b.len() {
        out.push(val(b[i]) << 4 | val(b[i + 1]));
        i += 2;
    }
    out
}

#[path = "../fill.rs"]
mod fill;

fn run_script(steps: Vec<Value>, mut sink: Box<dyn Write + Send>) -> bool {
    // returns false if a write failed (e.g. closed pipe)
    let mut ok = true;
    for s in steps {
        if let Some(h) = s.get("w").and_then(|x| x.as_str()) {
            let bytes = unhex(h);
            if sink.write_all(&bytes).is_err() || sink.flush().is_err() {
                ok = false;
                break;
            }
        } else if let Some(f) = s.get("f").and_then(|x| x.as_array()) {
            let n = |i: usize| f.get(i).and_then(|x| x.as_u64()).unwrap_or(0);
            let bytes = fill::fill_bytes(n(0) as usize, n(1) as usize, n(2) as u32);
            if sink.write_all(&bytes).is_err() || sink.flush().is_err() {
                ok = false;
                break;
            }
        } else if let Some(ms) = s.get("p").and_then(|x| x.as_u64()) {
            std::thread::sleep(Duration::from_millis(ms));
        }
    }
    ok
}

fn main() {
    // a closed pipe must surface as a write error, not kill us silently
    unsafe {
        libc::signal(libc::SIGPIPE, libc::SIG_IGN);
    }
    let start_ns = monotonic_ns();
    let args: Vec<String> = std::env::args().collect();
    let exe = args.get(1).cloned().unwrap_or_default();
    let argv: Vec<String> = args.iter().skip(2).cloned().collect();
    let cwd = std::env::current_dir()
        .map(|p| p.display().to_string())
        .unwrap_or_default();
    let trace_dir = PathBuf::from(std::env::var("MRV_TRACE").unwrap_or_else(|_| ".".into()));
    let pid = std::process::id();
    let id = format!("{}-{}", pid, start_ns);

    let plan: Value = std::env::var("MRV_PLAN")
        .ok()
        .and_then(|p| std::fs::read(p).ok())
        .and_then(|b| serde_json::from_slice(&b).ok())
        .unwrap_or(Value::Null);
    let key = format!("{}|{}", exe, cwd);
    let beh = plan
        .get("entries")
        .and_then(|e| e.get(&key))
        .cloned()
        .unwrap_or(Value::Null);

    // how many executions of this file in this directory came before this one
    let earlier = std::fs::read_dir(&trace_dir)
        .map(|rd| {
            rd.flatten()
                .filter(|e| e.file_name().to_string_lossy().ends_with(".start.json"))
                .filter_map(|e| std::fs::read(e.path()).ok())
                .filter_map(|b| serde_json::from_slice::<Value>(&b).ok())
                .filter(|v| v.get("exe").and_then(|x| x.as_str()) == Some(exe.as_str()) && v.get("cwd").and_then(|x| x.as_str()) == Some(cwd.as_str()))
                .count()
        })
        .unwrap_or(0);
    let barrier = beh.get("barrier").cloned();
    write_atomic(
        &trace_dir,
        &format!("{}.start.json", id),
        &json!({
            "pid": pid, "exe": exe, "cwd": cwd, "argv": argv, "start_ns": start_ns.to_string(),
            "planned": !beh.is_null(),
        }),
    );

    if beh.get("detach_output").and_then(|x| x.as_bool()).unwrap_or(false) {
        // like `exec >/dev/null 2>&1`: the pipes to monorail end here, the process goes on
        unsafe {
            let fd = libc::open(b"/dev/null\0".as_ptr() as *const libc::c_char, libc::O_WRONLY);
            if fd >= 0 {
                libc::dup2(fd, 1);
                libc::dup2(fd, 2);
                libc::close(fd);
            }
        }
    }
    if let Some(n) = beh.get("pre_out_bytes").and_then(|x| x.as_u64()).filter(|n| *n > 0) {
        // chatty start: lines of 100 bytes until n bytes are out (blocks if nobody reads the pipe)
        use std::io::Write;
        let line = format!("{:-<99}\n", "early output ");
        let mut out = std::io::stdout().lock();
        let mut written = 0u64;
        while written < n {
            if out.write_all(line.as_bytes()).is_err() {
                break;
            }
            written += line.len() as u64;
        }
        let _ = out.flush();
    }
    if let Some(list) = beh.get("nested").and_then(|x| x.as_array()) {
        let bin = std::env::var("MRV_MONORAIL_BIN").unwrap_or_default();
        let cfg = std::env::var("MRV_CONFIG").unwrap_or_default();
        let repo = std::env::var("MRV_REPO").unwrap_or_else(|_| ".".into());
        for (k, args) in list.iter().enumerate() {
            let args: Vec<String> = args.as_array().map(|a| a.iter().filter_map(|x| x.as_str().map(String::from)).collect()).unwrap_or_default();
            // same environment as this process (whatever the parent `run` put there)
            let out = std::process::Command::new(&bin).arg("-f").arg(&cfg).args(&args).current_dir(&repo).stdin(std::process::Stdio::null()).output();
            let v = match out {
                Ok(o) => json!({
                    "args": args, "code": o.status.code(),
                    "stdout": String::from_utf8_lossy(&o.stdout), "stderr": String::from_utf8_lossy(&o.stderr),
                }),
                Err(e) => json!({"args": args, "spawn_error": e.to_string()}),
            };
            write_atomic(&trace_dir, &format!("nested-{}-{}.json", id, k), &v);
        }
    }
    let mut exit_code = beh.get("exit").and_then(|x| x.as_i64()).unwrap_or(0) as i32;
    let mut barrier_timeout = false;
    let mut write_failed = false;

    if let Some(b) = barrier.as_ref().filter(|b| !b.is_null()) {
        let bkey = b.get("key").and_then(|x| x.as_str()).unwrap_or("b").to_string();
        let n = b.get("n").and_then(|x| x.as_u64()).unwrap_or(1) as usize;
        let timeout = Duration::from_millis(b.get("timeout_ms").and_then(|x| x.as_u64()).unwrap_or(30_000));
        let prefix = format!("barrier-{}-", bkey);
        let _ = std::fs::write(trace_dir.join(format!("{}{}", prefix, id)), b"");
        let t0 = Instant::now();
        // a time-out of 0: announce the start only
        while !timeout.is_zero() {
            let count = std::fs::read_dir(&trace_dir)
                .map(|rd| {
                    rd.flatten()
                        .filter(|e| e.file_name().to_string_lossy().starts_with(&prefix))
                        .count()
                })
                .unwrap_or(0);
            if count >= n {
                break;
            }
            if t0.elapsed() > timeout {
                barrier_timeout = true;
                exit_code = 97;
                break;
            }
            std::thread::sleep(Duration::from_millis(2));
        }
    }
    if let Some(g) = beh.get("gate").and_then(|x| x.as_str()) {
        let t0 = Instant::now();
        while !Path::new(g).exists() {
            if t0.elapsed() > Duration::from_secs(120) {
                exit_code = 98;
                break;
            }
            std::thread::sleep(Duration::from_millis(2));
        }
    }
    if let Some(ms) = beh.get("sleep_ms").and_then(|x| x.as_u64()) {
        if ms > 0 {
            std::thread::sleep(Duration::from_millis(ms));
        }
    }
    let pick_steps = |first: &str, later: &str| {
        let l = beh.get(later).and_then(|x| x.as_array()).cloned().unwrap_or_default();
        if earlier > 0 && !l.is_empty() {
            l
        } else {
            beh.get(first).and_then(|x| x.as_array()).cloned().unwrap_or_default()
        }
    };
    let out_steps = pick_steps("out", "out_later");
    let err_steps = pick_steps("err", "err_later");
    if !out_steps.is_empty() || !err_steps.is_empty() {
        let h1 = std::thread::spawn(move || run_script(out_steps, Box::new(std::io::stdout())));
        let h2 = std::thread::spawn(move || run_script(err_steps, Box::new(std::io::stderr())));
        let ok1 = h1.join().unwrap_or(false);
        let ok2 = h2.join().unwrap_or(false);
        write_failed = !(ok1 && ok2);
    }
    if let Some(ms) = beh.get("sleep_after_ms").and_then(|x| x.as_u64()) {
        if ms > 0 {
            std::thread::sleep(Duration::from_millis(ms));
        }
    }
    if let Some(list) = beh.get("chmod").and_then(|x| x.as_array()) {
        use std::os::unix::fs::PermissionsExt;
        for e in list {
            if let (Some(p), Some(m)) = (e.get(0).and_then(|x| x.as_str()), e.get(1).and_then(|x| x.as_u64())) {
                let _ = std::fs::set_permissions(p, std::fs::Permissions::from_mode(m as u32));
            }
        }
    }
    if let Some(ms) = beh.get("linger_ms").and_then(|x| x.as_u64()).filter(|ms| *ms > 0) {
        // a background process that inherits both pipes, writes nothing and outlives the helper
        let _ = std::process::Command::new("sleep")
            .arg(format!("{}.{:03}", ms / 1000, ms % 1000))
            .stdin(std::process::Stdio::null())
            .spawn();
    }
    if let Some(sig) = beh.get("kill_self").and_then(|x| x.as_i64()) {
        use std::io::Write;
        let _ = std::io::stdout().flush();
        unsafe {
            libc::kill(libc::getpid(), sig as i32);
        }
        std::thread::sleep(Duration::from_secs(5));
    }
    let end_ns = monotonic_ns();
    write_atomic(
        &trace_dir,
        &format!("{}.end.json", id),
        &json!({
            "pid": pid, "end_ns": end_ns.to_string(), "exit_code": exit_code,
            "barrier_timeout": barrier_timeout, "write_failed": write_failed,
        }),
    );
    std::process::exit(exit_code);
}
