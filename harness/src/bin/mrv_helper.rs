fn main(){}
