use mrverif::props;
use mrverif::runner::Ctx;

fn usage() -> ! {
    eprintln!("usage: mrverif <ID> [--tier quick|thorough] [--replay <file>]");
    std::process::exit(2);
}

fn level_of(id: &str) -> &'static str {
    match id {
        "C06" | "C13" | "C15" | "C17" => "fault_enumeration",
        _ => "exploration",
    }
}

fn main() {
    let args: Vec<String> = std::env::args().collect();
    if args.len() < 2 {
        usage();
    }
    let id = args[1].to_uppercase();
    let mut tier = std::env::var("VERIF_TIER").unwrap_or_else(|_| "quick".to_string());
    let mut replay: Option<String> = None;
    let mut i = 2;
    while i < args.len() {
        match args[i].as_str() {
            "--tier" => {
                i += 1;
                tier = args.get(i).cloned().unwrap_or_else(|| usage());
            }
            "--replay" => {
                i += 1;
                replay = Some(args.get(i).cloned().unwrap_or_else(|| usage()));
            }
            _ => usage(),
        }
        i += 1;
    }
    if tier != "quick" && tier != "thorough" {
        usage();
    }
    // generated cases may make the code under test panic; keep the output readable
    std::panic::set_hook(Box::new(|_| {}));
    let mut ctx = Ctx::new(&id, &tier, level_of(&id));
    let code = if let Some(file) = replay {
        ctx.strict = true;
        let body: serde_json::Value = match std::fs::read_to_string(&file)
            .map_err(|e| e.to_string())
            .and_then(|s| serde_json::from_str(&s).map_err(|e| e.to_string()))
        {
            Ok(v) => v,
            Err(e) => {
                eprintln!("cannot read replay file {}: {}", file, e);
                mrverif::scratch::cleanup();
                std::process::exit(2);
            }
        };
        let label = body.get("label").and_then(|l| l.as_str()).unwrap_or("").to_string();
        let case = body.get("case").cloned().unwrap_or(serde_json::Value::Null);
        let r = props::replay(&ctx, &id, &label, case);
        if let Err(e) = r {
            eprintln!("replay failed: {}", e);
            mrverif::scratch::cleanup();
            std::process::exit(2);
        }
        ctx.finish()
    } else {
        // seconds-long replay tier: golden regression cases first
        let seed_dir = std::path::Path::new(mrverif::runner::VERIF_ROOT).join("seeds").join(&id);
        if let Ok(rd) = std::fs::read_dir(&seed_dir) {
            let mut files: Vec<_> = rd.flatten().map(|e| e.path()).filter(|p| p.extension().map(|e| e == "json").unwrap_or(false)).collect();
            files.sort();
            for f in files {
                let Ok(body) = std::fs::read_to_string(&f).map_err(|e| e.to_string()).and_then(|s| serde_json::from_str::<serde_json::Value>(&s).map_err(|e| e.to_string())) else {
                    eprintln!("unreadable seed file {}", f.display());
                    continue;
                };
                let label = body.get("label").and_then(|l| l.as_str()).unwrap_or("").to_string();
                let case = body.get("case").cloned().unwrap_or(serde_json::Value::Null);
                if let Err(e) = props::replay(&ctx, &id, &label, case) {
                    eprintln!("seed {} could not be replayed: {}", f.display(), e);
                }
            }
        }
        // second search engine (thorough tier): statistics and, if it found something, the
        // case re-judged by the strict checker - libFuzzer is never a second oracle
        let fuzz_report = std::path::Path::new("/verif/.build").join(format!("fuzz-{}.json", id));
        if let Ok(txt) = std::fs::read_to_string(&fuzz_report) {
            if let Ok(v) = serde_json::from_str::<serde_json::Value>(&txt) {
                ctx.add_fuzz_stats(v.clone());
                if v.get("crashed").and_then(|c| c.as_bool()) == Some(true) {
                    let rp = v.get("replay").and_then(|r| r.as_str()).unwrap_or("");
                    match std::fs::read_to_string(rp).ok().and_then(|s| serde_json::from_str::<serde_json::Value>(&s).ok()) {
                        Some(body) if body.get("property").and_then(|p| p.as_str()) == Some(id.as_str()) => {
                            let label = body.get("label").and_then(|l| l.as_str()).unwrap_or("").to_string();
                            let case = body.get("case").cloned().unwrap_or(serde_json::Value::Null);
                            let _ = props::replay(&ctx, &id, &label, case);
                        }
                        Some(_) => {} // a violation of the sibling property sharing the target
                        None => {
                            println!("INCONCLUSIVE property={} the fuzz target crashed without a violation record", id);
                            mrverif::scratch::cleanup();
                            std::process::exit(2);
                        }
                    }
                }
            }
        }
        if !props::run(&mut ctx, &id) {
            eprintln!("unknown property {}", id);
            mrverif::scratch::cleanup();
            std::process::exit(2);
        }
        ctx.finish()
    };
    mrverif::scratch::cleanup();
    std::process::exit(code);
}
