//! Reference model of monorail's configuration semantics, written from the
//! property statements and the documentation. Shares no code with monorail.

use serde::{Deserialize, Serialize};
use serde_json::{json, Map, Value};
use std::collections::{BTreeMap, BTreeSet};

#[derive(Debug, Clone, Serialize, Deserialize, PartialEq, Eq, Default)]
pub struct TargetSpec {
    pub path: String,
    #[serde(default, skip_serializing_if = "Vec::is_empty")]
    pub uses: Vec<String>,
    #[serde(default, skip_serializing_if = "Vec::is_empty")]
    pub ignores: Vec<String>,
    /// `commands.path`
    #[serde(default, skip_serializing_if = "Option::is_none")]
    pub commands_path: Option<String>,
    /// `commands.definitions`: command -> explicit path ("" = `{}` without path)
    #[serde(default, skip_serializing_if = "BTreeMap::is_empty")]
    pub command_defs: BTreeMap<String, String>,
    /// `argmaps.path`
    #[serde(default, skip_serializing_if = "Option::is_none")]
    pub argmaps_path: Option<String>,
}

impl TargetSpec {
    pub fn new(path: &str) -> Self {
        TargetSpec {
            path: path.to_string(),
            ..Default::default()
        }
    }
    pub fn commands_dir(&self) -> String {
        match &self.commands_path {
            Some(p) => p.clone(),
            None => format!("{}/monorail/cmd", self.path),
        }
    }
    pub fn argmaps_dir(&self) -> String {
        match &self.argmaps_path {
            Some(p) => p.clone(),
            None => format!("{}/monorail/argmap", self.path),
        }
    }
}

#[derive(Debug, Clone, Serialize, Deserialize, PartialEq, Eq, Default)]
pub struct ConfigSpec {
    pub targets: Vec<TargetSpec>,
    #[serde(default, skip_serializing_if = "BTreeMap::is_empty")]
    pub sequences: BTreeMap<String, Vec<String>>,
    #[serde(default, skip_serializing_if = "Option::is_none")]
    pub max_retained_runs: Option<usize>,
    #[serde(default, skip_serializing_if = "Option::is_none")]
    pub out_dir: Option<String>,
    #[serde(default, skip_serializing_if = "Option::is_none")]
    pub lock_port: Option<u16>,
    #[serde(default, skip_serializing_if = "Option::is_none")]
    pub log_port: Option<u16>,
    #[serde(default, skip_serializing_if = "Option::is_none")]
    pub source_path: Option<String>,
    /// `server.lock.host`
    #[serde(default, skip_serializing_if = "Option::is_none")]
    pub lock_host: Option<String>,
    /// added to the lock port that is written to the file (to name a port beyond 65535)
    #[serde(default, skip_serializing_if = "Option::is_none")]
    pub lock_port_plus: Option<u64>,
}

impl ConfigSpec {
    pub fn out_dir(&self) -> &str {
        self.out_dir.as_deref().unwrap_or("monorail-out")
    }
    pub fn to_value(&self) -> Value {
        let mut m = Map::new();
        if let Some(s) = &self.source_path {
            m.insert("source".into(), json!({ "path": s }));
        }
        if let Some(o) = &self.out_dir {
            m.insert("out_dir".into(), json!(o));
        }
        if let Some(n) = self.max_retained_runs {
            m.insert("max_retained_runs".into(), json!(n));
        }
        let mut ts = vec![];
        for t in &self.targets {
            let mut tm = Map::new();
            tm.insert("path".into(), json!(t.path));
            if !t.uses.is_empty() {
                tm.insert("uses".into(), json!(t.uses));
            }
            if !t.ignores.is_empty() {
                tm.insert("ignores".into(), json!(t.ignores));
            }
            if t.commands_path.is_some() || !t.command_defs.is_empty() {
                let mut cm = Map::new();
                if let Some(p) = &t.commands_path {
                    cm.insert("path".into(), json!(p));
                }
                if !t.command_defs.is_empty() {
                    let mut dm = Map::new();
                    for (k, v) in &t.command_defs {
                        if v.is_empty() {
                            dm.insert(k.clone(), json!({}));
                        } else {
                            dm.insert(k.clone(), json!({ "path": v }));
                        }
                    }
                    cm.insert("definitions".into(), Value::Object(dm));
                }
                tm.insert("commands".into(), Value::Object(cm));
            }
            if let Some(p) = &t.argmaps_path {
                tm.insert("argmaps".into(), json!({ "path": p }));
            }
            ts.push(Value::Object(tm));
        }
        m.insert("targets".into(), Value::Array(ts));
        if !self.sequences.is_empty() {
            m.insert("sequences".into(), json!(self.sequences));
        }
        if self.lock_port.is_some() || self.log_port.is_some() {
            let mut sm = Map::new();
            if let Some(p) = self.log_port {
                sm.insert("log".into(), json!({ "port": p }));
            } else {
                sm.insert("log".into(), json!({}));
            }
            if let Some(p) = self.lock_port {
                let p = p as u64 + self.lock_port_plus.unwrap_or(0);
                match &self.lock_host {
                    Some(h) => sm.insert("lock".into(), json!({ "port": p, "host": h })),
                    None => sm.insert("lock".into(), json!({ "port": p })),
                };
            } else {
                sm.insert("lock".into(), json!({}));
            }
            m.insert("server".into(), Value::Object(sm));
        }
        Value::Object(m)
    }
    pub fn to_json(&self) -> String {
        serde_json::to_string_pretty(&self.to_value()).unwrap()
    }
    pub fn target_paths(&self) -> Vec<String> {
        self.targets.iter().map(|t| t.path.clone()).collect()
    }
    pub fn target(&self, path: &str) -> Option<&TargetSpec> {
        self.targets.iter().find(|t| t.path == path)
    }
}

// ---------------------------------------------------------------------------
// Paths: whole path components, never raw string prefixes.

pub fn comps(p: &str) -> Vec<&str> {
    p.split('/').filter(|c| !c.is_empty()).collect()
}

/// `p` equals `q` or lies inside directory `q`.
pub fn inside(p: &str, q: &str) -> bool {
    let pc = comps(p);
    let qc = comps(q);
    if qc.is_empty() || qc.len() > pc.len() {
        return false;
    }
    pc[..qc.len()] == qc[..]
}

/// Raw string prefix that is *not* a component prefix - the shape that
/// distinguishes a correct implementation from a byte-prefix one.
pub fn string_prefix_only(p: &str, q: &str) -> bool {
    p.starts_with(q) && !inside(p, q)
}

// ---------------------------------------------------------------------------
// Dependency relation (C10)

/// T depends on U.
pub fn dep(t: &TargetSpec, u: &TargetSpec) -> bool {
    if t.path == u.path {
        return false;
    }
    inside(&t.path, &u.path) || t.uses.iter().any(|x| inside(x, &u.path))
}

/// All dependency edges (from, to) as path pairs.
pub fn dep_edges(cfg: &ConfigSpec) -> BTreeSet<(String, String)> {
    let mut s = BTreeSet::new();
    for t in &cfg.targets {
        for u in &cfg.targets {
            if dep(t, u) {
                s.insert((t.path.clone(), u.path.clone()));
            }
        }
    }
    s
}

/// Adjacency by index: adj[i] = indices j with dep(i, j).
pub fn dep_adj(cfg: &ConfigSpec) -> Vec<Vec<usize>> {
    let n = cfg.targets.len();
    let mut adj = vec![vec![]; n];
    for i in 0..n {
        for j in 0..n {
            if dep(&cfg.targets[i], &cfg.targets[j]) {
                adj[i].push(j);
            }
        }
    }
    adj
}

/// Least superset of `roots` closed under `adj`.
pub fn closure(adj: &[Vec<usize>], roots: &[usize]) -> BTreeSet<usize> {
    let mut seen = BTreeSet::new();
    let mut stack: Vec<usize> = roots.to_vec();
    while let Some(n) = stack.pop() {
        if seen.insert(n) {
            for &m in &adj[n] {
                if !seen.contains(&m) {
                    stack.push(m);
                }
            }
        }
    }
    seen
}

/// Is there a directed cycle among the nodes reachable from `roots`?
pub fn has_cycle_reachable(adj: &[Vec<usize>], roots: &[usize]) -> bool {
    let cl = closure(adj, roots);
    // Kahn on the induced subgraph (closure is closed, so all edges stay inside).
    let mut indeg: BTreeMap<usize, usize> = cl.iter().map(|&n| (n, 0)).collect();
    for &n in &cl {
        for &m in &adj[n] {
            *indeg.get_mut(&m).unwrap() += 1;
        }
    }
    let mut work: Vec<usize> = indeg
        .iter()
        .filter(|(_, &d)| d == 0)
        .map(|(&n, _)| n)
        .collect();
    let mut removed = 0;
    while let Some(n) = work.pop() {
        removed += 1;
        for &m in &adj[n] {
            let d = indeg.get_mut(&m).unwrap();
            *d -= 1;
            if *d == 0 {
                work.push(m);
            }
        }
    }
    removed != cl.len()
}

/// Validity of a layering: groups non-empty, pairwise disjoint, union == `expect`,
/// and every dependency inside `expect` goes to a strictly earlier group.
pub fn valid_layering(
    groups: &[Vec<usize>],
    expect: &BTreeSet<usize>,
    adj: &[Vec<usize>],
) -> Result<(), String> {
    let mut level: BTreeMap<usize, usize> = BTreeMap::new();
    for (gi, g) in groups.iter().enumerate() {
        if g.is_empty() {
            return Err(format!("group {} is empty", gi));
        }
        for &n in g {
            if level.insert(n, gi).is_some() {
                return Err(format!("node {} appears more than once", n));
            }
        }
    }
    let got: BTreeSet<usize> = level.keys().copied().collect();
    if &got != expect {
        let missing: Vec<_> = expect.difference(&got).collect();
        let extra: Vec<_> = got.difference(expect).collect();
        return Err(format!(
            "grouped node set differs from requested set: missing {:?}, extra {:?}",
            missing, extra
        ));
    }
    // "depends on" is transitive: when the requested set is not closed under dependencies (the
    // changed targets), a dependency that runs through targets outside the set still orders its ends
    let closed = expect.iter().all(|&t| adj[t].iter().all(|u| expect.contains(u)));
    for &t in expect {
        // (for a set that is closed under dependencies the direct edges imply the rest)
        let reach: BTreeSet<usize> = if closed { adj[t].iter().copied().collect() } else { closure(adj, &[t]) };
        for &u in &reach {
            if u != t && expect.contains(&u) && level[&t] <= level[&u] {
                let direct = adj[t].contains(&u);
                return Err(format!(
                    "node {} (group {}) depends on node {}{} (group {}), which is not strictly earlier",
                    t,
                    level[&t],
                    u,
                    if direct { "" } else { " through other targets" },
                    level[&u]
                ));
            }
        }
    }
    Ok(())
}

// ---------------------------------------------------------------------------
// Change -> target mapping (C01)

pub fn ignored(t: &TargetSpec, p: &str) -> bool {
    t.ignores.iter().any(|i| inside(p, i))
}

/// Three-valued "own" relation. `strict=true` leaves out `uses` entries that name
/// (are equal to the path of) a target which itself ignores `p` - the case the
/// documentation is silent about; `strict=false` includes them.
fn own(cfg: &ConfigSpec, t: &TargetSpec, p: &str, strict: bool) -> bool {
    if inside(p, &t.path) {
        return true;
    }
    t.uses.iter().any(|u| {
        if !inside(p, u) {
            return false;
        }
        if strict {
            let names_ignoring_target = cfg
                .targets
                .iter()
                .any(|x| comps(&x.path) == comps(u) && ignored(x, p));
            !names_ignoring_target
        } else {
            true
        }
    })
}

fn affected1(cfg: &ConfigSpec, t: &TargetSpec, p: &str, strict: bool) -> bool {
    if ignored(t, p) {
        return false;
    }
    if own(cfg, t, p, strict) {
        return true;
    }
    cfg.targets.iter().any(|n| {
        n.path != t.path && inside(&n.path, &t.path) && !ignored(n, p) && own(cfg, n, p, strict)
    })
}

/// (must, may): targets that must be reported for change `p`, and the superset
/// that may be reported (the documented-silent case counted in).
pub fn affected(cfg: &ConfigSpec, p: &str) -> (BTreeSet<String>, BTreeSet<String>) {
    let mut must = BTreeSet::new();
    let mut may = BTreeSet::new();
    for t in &cfg.targets {
        if affected1(cfg, t, p, true) {
            must.insert(t.path.clone());
        }
        if affected1(cfg, t, p, false) {
            may.insert(t.path.clone());
        }
    }
    (must, may)
}

pub fn affected_many<'a, I: IntoIterator<Item = &'a String>>(
    cfg: &ConfigSpec,
    paths: I,
) -> (BTreeSet<String>, BTreeSet<String>) {
    let mut must = BTreeSet::new();
    let mut may = BTreeSet::new();
    for p in paths {
        let (a, b) = affected(cfg, p);
        must.extend(a);
        may.extend(b);
    }
    (must, may)
}

#[cfg(test)]
mod tests {
    use super::*;
    #[test]
    fn inside_is_component_wise() {
        assert!(inside("app/x", "app"));
        assert!(inside("app", "app"));
        assert!(!inside("app2/x", "app"));
        assert!(!inside("app", "app/x"));
        assert!(string_prefix_only("app2/x", "app"));
    }
}
