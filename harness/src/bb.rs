//! Black-box engine: throw-away repositories, generated command files that run
//! `mrv-helper`, invocation of the real `monorail` binary, trace collection.

use crate::model::ConfigSpec;
use crate::scratch;
use serde::{Deserialize, Serialize};
use serde_json::{json, Map, Value};
use std::collections::BTreeMap;
use std::io::Read;
use std::os::unix::fs::PermissionsExt;
use std::os::unix::process::CommandExt;
use std::path::{Path, PathBuf};
use std::process::{Command, Stdio};
use std::sync::atomic::{AtomicU32, AtomicU64, Ordering};
use std::time::{Duration, Instant};

pub const BUILD_DIR: &str = "/verif/.build/debug";

/// Writers of files that will be executed hold this for reading while the file is open; every
/// fork of the harness (Command::spawn) holds it for writing. Without it a child forked by one
/// worker thread inherits, until its exec, the write descriptor another thread has open on a
/// command script - and monorail, started a moment later, gets ETXTBSY ("Text file busy") when
/// it tries to execute that script.
pub static FORK_LOCK: std::sync::RwLock<()> = std::sync::RwLock::new(());

/// A private copy of a built executable, taken once per harness process: a rebuild that replaces
/// the file in the build directory while a check is running (another check's build step, an
/// edit of the harness) must not change what this check executes half-way through.
fn private_copy(src: PathBuf, slot: &'static std::sync::OnceLock<PathBuf>) -> PathBuf {
    slot.get_or_init(|| {
        let name = src.file_name().map(|n| n.to_os_string()).unwrap_or_default();
        let dst = scratch::root().join("bin").join(name);
        let _ = std::fs::create_dir_all(dst.parent().unwrap());
        let _g = FORK_LOCK.read();
        match std::fs::copy(&src, &dst) {
            Ok(_) => dst,
            Err(_) => src,
        }
    })
    .clone()
}

pub fn monorail_bin() -> PathBuf {
    static SLOT: std::sync::OnceLock<PathBuf> = std::sync::OnceLock::new();
    let src = std::env::var("MRV_MONORAIL")
        .map(PathBuf::from)
        .unwrap_or_else(|_| PathBuf::from(BUILD_DIR).join("monorail"));
    private_copy(src, &SLOT)
}
pub fn helper_bin() -> PathBuf {
    static SLOT: std::sync::OnceLock<PathBuf> = std::sync::OnceLock::new();
    private_copy(PathBuf::from(BUILD_DIR).join("mrv-helper"), &SLOT)
}

pub fn monotonic_ns() -> u128 {
    let mut ts = libc::timespec {
        tv_sec: 0,
        tv_nsec: 0,
    };
    unsafe {
        libc::clock_gettime(libc::CLOCK_MONOTONIC, &mut ts);
    }
    (ts.tv_sec as u128) * 1_000_000_000 + ts.tv_nsec as u128
}

// ---------------------------------------------------------------------------
// helper behaviour

#[derive(Debug, Clone, Serialize, Deserialize, PartialEq, Eq)]
pub enum Step {
    /// write these bytes (then flush)
    W(Vec<u8>),
    /// pause, milliseconds
    P(u64),
    /// write `total` bytes of generated text at once: lines of `line` bytes (0 = no newline at all)
    F { total: usize, line: usize, tag: u32 },
}

#[derive(Debug, Clone, Serialize, Deserialize, Default, PartialEq, Eq)]
pub struct Behavior {
    #[serde(default)]
    pub exit: i32,
    #[serde(default)]
    pub sleep_ms: u64,
    #[serde(default)]
    pub sleep_after_ms: u64,
    #[serde(default, skip_serializing_if = "Vec::is_empty")]
    pub out: Vec<Step>,
    #[serde(default, skip_serializing_if = "Vec::is_empty")]
    pub err: Vec<Step>,
    /// (key, n): wait until n helpers with this key have started
    #[serde(default, skip_serializing_if = "Option::is_none")]
    pub barrier: Option<(String, usize, u64)>,
    /// block until this file (relative to the case root) exists
    #[serde(default, skip_serializing_if = "Option::is_none")]
    pub gate: Option<String>,
    /// instead of exiting, the helper sends itself this signal once its script is done
    #[serde(default, skip_serializing_if = "Option::is_none")]
    pub kill_self: Option<i32>,
    /// on exit the helper leaves a silent background process behind that keeps the inherited
    /// stdout/stderr open for this long
    #[serde(default, skip_serializing_if = "is_zero")]
    pub linger_ms: u64,
    /// monorail invocations (argument lists after `-f <config>`) the helper makes itself, one
    /// after the other, before its own output; their outcomes go to `nested-*.json` in the trace dir
    #[serde(default, skip_serializing_if = "Vec::is_empty")]
    pub nested: Vec<Vec<String>>,
    /// bytes written to stdout before anything else (before the barrier / gate)
    #[serde(default, skip_serializing_if = "is_zero")]
    pub pre_out_bytes: u64,
    /// (path relative to the repository, mode): permission changes the helper makes before it exits
    #[serde(default, skip_serializing_if = "Vec::is_empty")]
    pub chmod: Vec<(String, u32)>,
    /// what the second and later executions of the same file in the same directory (within one
    /// case) write instead of `out` / `err`, when not empty
    #[serde(default, skip_serializing_if = "Vec::is_empty")]
    pub out_later: Vec<Step>,
    #[serde(default, skip_serializing_if = "Vec::is_empty")]
    pub err_later: Vec<Step>,
    /// the helper points its stdout and stderr at /dev/null first thing (like `exec >/dev/null
    /// 2>&1` in a script): monorail sees both pipes end while the process keeps running
    #[serde(default, skip_serializing_if = "std::ops::Not::not")]
    pub detach_output: bool,
}

fn is_zero(x: &u64) -> bool {
    *x == 0
}

pub fn hex(b: &[u8]) -> String {
    let mut s = String::with_capacity(b.len() * 2);
    for x in b {
        s.push_str(&format!("{:02x}", x));
    }
    s
}

fn steps_json(steps: &[Step]) -> Value {
    Value::Array(
        steps
            .iter()
            .map(|s| match s {
                Step::W(b) => json!({ "w": hex(b) }),
                Step::P(ms) => json!({ "p": ms }),
                Step::F { total, line, tag } => json!({ "f": [total, line, tag] }),
            })
            .collect(),
    )
}

pub fn script_bytes(steps: &[Step]) -> Vec<u8> {
    let mut v = vec![];
    for s in steps {
        match s {
            Step::W(b) => v.extend_from_slice(b),
            Step::F { total, line, tag } => v.extend_from_slice(&crate::fill::fill_bytes(*total, *line, *tag)),
            Step::P(_) => {}
        }
    }
    v
}

// ---------------------------------------------------------------------------
// traces

#[derive(Debug, Clone, Serialize)]
pub struct Trace {
    pub pid: u64,
    pub exe: String,
    pub cwd: String,
    pub argv: Vec<String>,
    pub start_ns: u128,
    pub end_ns: Option<u128>,
    pub exit_code: Option<i64>,
    pub barrier_timeout: bool,
    pub write_failed: bool,
}

// ---------------------------------------------------------------------------
// invocation result

#[derive(Debug, Clone)]
pub struct MrOut {
    pub code: Option<i32>,
    pub signal: Option<i32>,
    pub stdout: Vec<u8>,
    pub stderr: Vec<u8>,
    pub timed_out: bool,
    pub wall: Duration,
    pub pid: u32,
}
impl MrOut {
    pub fn ok(&self) -> bool {
        self.code == Some(0)
    }
    pub fn stdout_str(&self) -> String {
        String::from_utf8_lossy(&self.stdout).to_string()
    }
    pub fn stderr_str(&self) -> String {
        String::from_utf8_lossy(&self.stderr).to_string()
    }
    /// stdout parsed as one JSON document
    pub fn json(&self) -> Option<Value> {
        serde_json::from_slice(&self.stdout).ok()
    }
    /// last JSON line on stderr with kind=error
    pub fn error(&self) -> Option<Value> {
        for line in self.stderr_str().lines().rev() {
            if let Ok(v) = serde_json::from_str::<Value>(line) {
                if v.get("kind").and_then(|k| k.as_str()) == Some("error") {
                    return Some(v);
                }
            }
        }
        None
    }
    pub fn error_type(&self) -> String {
        self.error()
            .and_then(|e| e.get("type").and_then(|t| t.as_str()).map(String::from))
            .unwrap_or_default()
    }
    pub fn brief(&self) -> Value {
        let cut = |b: &[u8]| {
            let s = String::from_utf8_lossy(b);
            if s.len() > 1500 {
                format!("{}...[{} bytes]", &s[..s.char_indices().nth(1500).map(|x| x.0).unwrap_or(s.len())], s.len())
            } else {
                s.to_string()
            }
        };
        json!({"code": self.code, "signal": self.signal, "timed_out": self.timed_out,
               "stdout": cut(&self.stdout), "stderr": cut(&self.stderr)})
    }
}

static PORT_COUNTER: AtomicU32 = AtomicU32::new(0);
static CASE_COUNTER: AtomicU64 = AtomicU64::new(0);

/// A loopback port nobody is listening on right now.
pub fn free_port() -> u16 {
    // 20000-29999: below the kernel's ephemeral range (32768-60999), so that no outgoing
    // connection of anybody can sit on a port handed out here
    // every harness process keeps to a window of 100 ports of its own (chosen by its pid), so
    // that two checks running at the same time do not hand out the same port
    let base = 20000 + (std::process::id() % 100) * 100;
    for _ in 0..20000 {
        let k = PORT_COUNTER.fetch_add(1, Ordering::SeqCst);
        let port = base + (k % 100);
        let port = port as u16;
        if std::net::TcpListener::bind(("127.0.0.1", port)).is_ok() {
            return port;
        }
    }
    panic!("no free port");
}

pub struct Env {
    pub case_dir: PathBuf,
    pub repo: PathBuf,
    pub trace: PathBuf,
    pub plan_path: PathBuf,
    pub lock_port: u16,
    pub log_port: u16,
    pub invocations: u64,
    pgids: Vec<i32>,
    pub extra_env: Vec<(String, String)>,
    pub default_timeout: Duration,
    /// soft limit on open files for every process started through this Env (None: inherited)
    pub nofile: Option<u64>,
    /// restrict monorail (and what it starts) to the first k CPUs (a small CI container)
    pub cpus: Option<usize>,
    /// file name of the configuration in the repository root (default Monorail.json)
    pub config_name: String,
    /// run monorail (and git) from this directory instead of the repository root
    pub cwd_override: Option<PathBuf>,
}

impl Env {
    pub fn new(worker: usize) -> Env {
        Env::new_in(scratch::root(), worker)
    }

    /// Like `new`, with the case directory below another scratch root.
    pub fn new_in(base: &Path, worker: usize) -> Env {
        let k = CASE_COUNTER.fetch_add(1, Ordering::SeqCst);
        let case_dir = base.join(format!("w{}", worker)).join(format!("case{}", k));
        let _ = std::fs::remove_dir_all(&case_dir);
        let repo = case_dir.join("repo");
        let trace = case_dir.join("trace");
        std::fs::create_dir_all(&repo).expect("mkdir repo");
        std::fs::create_dir_all(&trace).expect("mkdir trace");
        let plan_path = case_dir.join("plan.json");
        std::fs::write(&plan_path, b"{\"entries\":{}}").unwrap();
        Env {
            case_dir,
            repo,
            trace,
            plan_path,
            lock_port: free_port(),
            log_port: free_port(),
            invocations: 0,
            pgids: vec![],
            extra_env: vec![],
            default_timeout: Duration::from_secs(120),
            nofile: None,
            cpus: None,
            config_name: "Monorail.json".to_string(),
            cwd_override: None,
        }
    }

    pub fn path(&self, rel: &str) -> PathBuf {
        self.repo.join(rel)
    }

    pub fn write_file(&self, rel: &str, content: &[u8]) {
        let p = self.path(rel);
        if let Some(d) = p.parent() {
            let _ = std::fs::create_dir_all(d);
        }
        let _g = FORK_LOCK.read();
        std::fs::write(&p, content).unwrap_or_else(|e| panic!("write {}: {}", p.display(), e));
    }

    /// Config with this case's ports filled in.
    pub fn with_ports(&self, cfg: &ConfigSpec) -> ConfigSpec {
        let mut c = cfg.clone();
        c.lock_port = Some(self.lock_port);
        c.log_port = Some(self.log_port);
        c
    }

    pub fn config_path(&self) -> PathBuf {
        self.repo.join(&self.config_name)
    }

    /// Write Monorail.json (ports of this case filled in) and create every target
    /// directory with one file in it.
    pub fn install_config(&self, cfg: &ConfigSpec) {
        let c = self.with_ports(cfg);
        std::fs::write(self.config_path(), c.to_json()).unwrap();
        for t in &cfg.targets {
            let d = self.path(&t.path);
            std::fs::create_dir_all(&d).unwrap();
            let f = d.join("src.txt");
            if !f.exists() {
                std::fs::write(&f, format!("source of {}\nline 2\nline 3\nline 4\n", t.path)).unwrap();
            }
        }
    }

    pub fn write_raw_config(&self, bytes: &[u8]) {
        std::fs::write(self.config_path(), bytes).unwrap();
    }

    /// Install a command file (relative to the repo root) that runs the helper.
    pub fn install_command(&self, rel: &str, executable: bool) {
        let p = self.path(rel);
        if let Some(d) = p.parent() {
            std::fs::create_dir_all(d).unwrap();
        }
        {
            let _g = FORK_LOCK.read();
            std::fs::write(&p, b"#!/bin/sh\nexec \"$MRV_HELPER\" \"$0\" \"$@\"\n").unwrap();
        }
        let mode = if executable { 0o755 } else { 0o644 };
        std::fs::set_permissions(&p, std::fs::Permissions::from_mode(mode)).unwrap();
    }

    /// Install the command at `rel` as a symbolic link to a real script stored at `real_rel`
    /// (a script shared between targets, linked into each command directory).
    pub fn install_command_symlink(&self, rel: &str, real_rel: &str, executable: bool) {
        self.install_command(real_rel, executable);
        let p = self.path(rel);
        if let Some(d) = p.parent() {
            std::fs::create_dir_all(d).unwrap();
        }
        let _ = std::fs::remove_file(&p);
        std::os::unix::fs::symlink(self.path(real_rel), &p).unwrap();
    }

    /// plan: (command file relative to repo, target path) -> behaviour
    pub fn set_plan(&self, plan: &BTreeMap<(String, String), Behavior>) {
        let mut entries = Map::new();
        for ((exe, target), b) in plan {
            // (normalised: no doubled or trailing separators, as the helper sees its own paths)
            let norm = |p: PathBuf| p.components().collect::<PathBuf>();
            let key = format!("{}|{}", norm(self.path(exe)).display(), norm(self.path(target)).display());
            let mut m = Map::new();
            m.insert("exit".into(), json!(b.exit));
            m.insert("sleep_ms".into(), json!(b.sleep_ms));
            m.insert("sleep_after_ms".into(), json!(b.sleep_after_ms));
            if !b.out.is_empty() {
                m.insert("out".into(), steps_json(&b.out));
            }
            if !b.err.is_empty() {
                m.insert("err".into(), steps_json(&b.err));
            }
            if let Some((k, n, t)) = &b.barrier {
                m.insert("barrier".into(), json!({"key": k, "n": n, "timeout_ms": t}));
            }
            if let Some(g) = &b.gate {
                m.insert("gate".into(), json!(self.case_dir.join(g).display().to_string()));
            }
            if let Some(s) = b.kill_self {
                m.insert("kill_self".into(), json!(s));
            }
            if b.linger_ms > 0 {
                m.insert("linger_ms".into(), json!(b.linger_ms));
            }
            if b.detach_output {
                m.insert("detach_output".into(), json!(true));
            }
            if !b.out_later.is_empty() {
                m.insert("out_later".into(), steps_json(&b.out_later));
            }
            if !b.err_later.is_empty() {
                m.insert("err_later".into(), steps_json(&b.err_later));
            }
            if b.pre_out_bytes > 0 {
                m.insert("pre_out_bytes".into(), json!(b.pre_out_bytes));
            }
            if !b.nested.is_empty() {
                m.insert("nested".into(), json!(b.nested));
            }
            if !b.chmod.is_empty() {
                let v: Vec<Value> = b.chmod.iter().map(|(p, m)| json!([self.path(p).display().to_string(), m])).collect();
                m.insert("chmod".into(), Value::Array(v));
            }
            entries.insert(key, Value::Object(m));
        }
        let tmp = self.case_dir.join(".plan.tmp");
        std::fs::write(&tmp, serde_json::to_vec(&json!({ "entries": entries })).unwrap()).unwrap();
        std::fs::rename(&tmp, &self.plan_path).unwrap();
    }

    pub fn open_gate(&self, name: &str) {
        let _ = std::fs::write(self.case_dir.join(name), b"");
    }

    fn base_command(&self, bin: &Path) -> Command {
        let mut c = Command::new(bin);
        c.current_dir(self.cwd_override.as_ref().unwrap_or(&self.repo))
            .env_clear()
            .env("PATH", std::env::var("PATH").unwrap_or_else(|_| "/usr/bin:/bin".into()))
            .env("HOME", &self.case_dir)
            .env("LANG", "C.UTF-8")
            .env("GIT_CONFIG_GLOBAL", "/dev/null")
            .env("GIT_CONFIG_SYSTEM", "/dev/null")
            .env("GIT_CONFIG_NOSYSTEM", "1")
            .env("GIT_AUTHOR_NAME", "verif")
            .env("GIT_AUTHOR_EMAIL", "verif@example.invalid")
            .env("GIT_COMMITTER_NAME", "verif")
            .env("GIT_COMMITTER_EMAIL", "verif@example.invalid")
            .env("GIT_AUTHOR_DATE", "2024-01-01T00:00:00Z")
            .env("GIT_COMMITTER_DATE", "2024-01-01T00:00:00Z")
            // monorail sizes its tokio and rayon pools by the core count; 16 workers x 32+
            // threads each only adds scheduler noise, so default to a small machine
            .env("TOKIO_WORKER_THREADS", "4")
            .env("RAYON_NUM_THREADS", "2")
            .env("MRV_HELPER", helper_bin())
            .env("MRV_MONORAIL_BIN", monorail_bin())
            .env("MRV_CONFIG", self.config_path())
            .env("MRV_REPO", &self.repo)
            .env("MRV_PLAN", &self.plan_path)
            .env("MRV_TRACE", &self.trace);
        for (k, v) in &self.extra_env {
            c.env(k, v);
        }
        if let Some(k) = self.cpus {
            use std::os::unix::process::CommandExt;
            unsafe {
                c.pre_exec(move || {
                    let mut set: libc::cpu_set_t = std::mem::zeroed();
                    libc::CPU_ZERO(&mut set);
                    for i in 0..k.max(1) {
                        libc::CPU_SET(i, &mut set);
                    }
                    libc::sched_setaffinity(0, std::mem::size_of::<libc::cpu_set_t>(), &set);
                    Ok(())
                });
            }
        }
        if let Some(n) = self.nofile {
            use std::os::unix::process::CommandExt;
            unsafe {
                c.pre_exec(move || {
                    let mut lim = libc::rlimit { rlim_cur: 0, rlim_max: 0 };
                    if libc::getrlimit(libc::RLIMIT_NOFILE, &mut lim) == 0 {
                        lim.rlim_cur = (n as libc::rlim_t).min(lim.rlim_max);
                        libc::setrlimit(libc::RLIMIT_NOFILE, &lim);
                    }
                    Ok(())
                });
            }
        }
        c
    }

    pub fn git(&mut self, args: &[&str]) -> MrOut {
        let mut c = self.base_command(Path::new("git"));
        c.args(args);
        self.run_command(c, Duration::from_secs(60), None)
    }

    pub fn git_ok(&mut self, args: &[&str]) -> Result<String, String> {
        let o = self.git(args);
        if o.ok() {
            Ok(o.stdout_str())
        } else {
            Err(format!("git {:?} failed: {}", args, o.stderr_str()))
        }
    }

    pub fn git_init(&mut self) -> Result<(), String> {
        self.git_ok(&["init", "-q", "-b", "main"])?;
        Ok(())
    }

    pub fn mr_command(&self, args: &[&str]) -> Command {
        let mut c = self.base_command(&monorail_bin());
        c.arg("-f").arg(self.config_path());
        c.args(args);
        c
    }

    /// Run monorail with cwd = repository root and wait for it.
    pub fn mr(&mut self, args: &[&str]) -> MrOut {
        let c = self.mr_command(args);
        self.invocations += 1;
        let t = self.default_timeout;
        self.run_command(c, t, None)
    }

    pub fn mr_env(&mut self, args: &[&str], env: &[(&str, String)], timeout: Duration) -> MrOut {
        let mut c = self.mr_command(args);
        for (k, v) in env {
            c.env(k, v);
        }
        self.invocations += 1;
        self.run_command(c, timeout, None)
    }

    pub fn mr_stdin(&mut self, args: &[&str], stdin: &[u8]) -> MrOut {
        let c = self.mr_command(args);
        self.invocations += 1;
        let t = self.default_timeout;
        self.run_command(c, t, Some(stdin.to_vec()))
    }

    /// Start monorail without waiting.
    pub fn mr_spawn(&mut self, args: &[&str], env: &[(&str, String)]) -> Running {
        let mut c = self.mr_command(args);
        for (k, v) in env {
            c.env(k, v);
        }
        self.invocations += 1;
        self.spawn(c, None)
    }

    /// Like `mr_spawn`, but monorail is started by another program (`prefix[0] prefix[1..]
    /// <monorail> -f <config> args`), e.g. under strace with a delay injected into a system call.
    pub fn mr_spawn_under(&mut self, prefix: &[&str], args: &[&str], env: &[(&str, String)]) -> Running {
        let mut c = self.base_command(Path::new(prefix[0]));
        c.args(&prefix[1..]);
        c.arg(monorail_bin());
        c.arg("-f").arg(self.config_path());
        c.args(args);
        for (k, v) in env {
            c.env(k, v);
        }
        self.invocations += 1;
        self.spawn(c, None)
    }

    fn spawn(&mut self, mut c: Command, stdin: Option<Vec<u8>>) -> Running {
        c.stdout(Stdio::piped()).stderr(Stdio::piped());
        if stdin.is_some() {
            c.stdin(Stdio::piped());
        } else {
            c.stdin(Stdio::null());
        }
        c.process_group(0);
        let t0 = Instant::now();
        let mut child = {
            let _g = FORK_LOCK.write();
            c.spawn().expect("spawn failed")
        };
        let pid = child.id();
        self.pgids.push(pid as i32);
        if let Some(data) = stdin {
            use std::io::Write;
            if let Some(mut si) = child.stdin.take() {
                let _ = si.write_all(&data);
            }
        }
        let mut so = child.stdout.take().unwrap();
        let mut se = child.stderr.take().unwrap();
        let live = std::sync::Arc::new(std::sync::Mutex::new(Vec::<u8>::new()));
        let live2 = live.clone();
        let h1 = std::thread::spawn(move || {
            let mut v = vec![];
            let mut buf = [0u8; 16384];
            loop {
                match so.read(&mut buf) {
                    Ok(0) | Err(_) => break,
                    Ok(n) => {
                        v.extend_from_slice(&buf[..n]);
                        live2.lock().unwrap().extend_from_slice(&buf[..n]);
                    }
                }
            }
            v
        });
        let h2 = std::thread::spawn(move || {
            let mut v = vec![];
            let _ = se.read_to_end(&mut v);
            v
        });
        Running {
            child,
            pid,
            t0,
            out: Some(h1),
            err: Some(h2),
            live,
        }
    }

    fn run_command(&mut self, c: Command, timeout: Duration, stdin: Option<Vec<u8>>) -> MrOut {
        let r = self.spawn(c, stdin);
        r.wait(timeout)
    }

    pub fn clear_traces(&self) {
        if let Ok(rd) = std::fs::read_dir(&self.trace) {
            for e in rd.flatten() {
                let _ = std::fs::remove_file(e.path());
            }
        }
    }

    pub fn traces(&self) -> Vec<Trace> {
        let mut starts: BTreeMap<String, Value> = BTreeMap::new();
        let mut ends: BTreeMap<String, Value> = BTreeMap::new();
        if let Ok(rd) = std::fs::read_dir(&self.trace) {
            for e in rd.flatten() {
                let name = e.file_name().to_string_lossy().to_string();
                if let Some(id) = name.strip_suffix(".start.json") {
                    if let Ok(v) = serde_json::from_slice(&std::fs::read(e.path()).unwrap_or_default()) {
                        starts.insert(id.to_string(), v);
                    }
                } else if let Some(id) = name.strip_suffix(".end.json") {
                    if let Ok(v) = serde_json::from_slice(&std::fs::read(e.path()).unwrap_or_default()) {
                        ends.insert(id.to_string(), v);
                    }
                }
            }
        }
        let mut out = vec![];
        for (id, s) in starts {
            let e = ends.get(&id);
            let num = |v: &Value, k: &str| -> Option<u128> {
                v.get(k).and_then(|x| x.as_str()).and_then(|x| x.parse().ok())
            };
            out.push(Trace {
                pid: s.get("pid").and_then(|x| x.as_u64()).unwrap_or(0),
                exe: s.get("exe").and_then(|x| x.as_str()).unwrap_or("").to_string(),
                cwd: s.get("cwd").and_then(|x| x.as_str()).unwrap_or("").to_string(),
                argv: s
                    .get("argv")
                    .and_then(|x| x.as_array())
                    .map(|a| a.iter().map(|x| x.as_str().unwrap_or("").to_string()).collect())
                    .unwrap_or_default(),
                start_ns: num(&s, "start_ns").unwrap_or(0),
                end_ns: e.and_then(|e| num(e, "end_ns")),
                exit_code: e.and_then(|e| e.get("exit_code").and_then(|x| x.as_i64())),
                barrier_timeout: e
                    .and_then(|e| e.get("barrier_timeout").and_then(|x| x.as_bool()))
                    .unwrap_or(false),
                write_failed: e
                    .and_then(|e| e.get("write_failed").and_then(|x| x.as_bool()))
                    .unwrap_or(false),
            });
        }
        out.sort_by_key(|t| t.start_ns);
        out
    }

    /// Repo-relative form of an absolute path under the repo.
    pub fn rel(&self, abs: &str) -> String {
        Path::new(abs)
            .strip_prefix(&self.repo)
            .map(|p| p.display().to_string())
            .unwrap_or_else(|_| abs.to_string())
    }

    pub fn kill_groups(&mut self) {
        for pg in self.pgids.drain(..) {
            unsafe {
                libc::kill(-pg, libc::SIGKILL);
            }
        }
    }
}

impl Drop for Env {
    fn drop(&mut self) {
        self.kill_groups();
        if std::env::var("MRV_KEEP").is_err() {
            let _ = std::fs::remove_dir_all(&self.case_dir);
        }
    }
}

pub struct Running {
    pub child: std::process::Child,
    pub pid: u32,
    t0: Instant,
    out: Option<std::thread::JoinHandle<Vec<u8>>>,
    err: Option<std::thread::JoinHandle<Vec<u8>>>,
    live: std::sync::Arc<std::sync::Mutex<Vec<u8>>>,
}

impl Running {
    /// stdout received so far
    pub fn stdout_so_far(&self) -> Vec<u8> {
        self.live.lock().unwrap().clone()
    }
    pub fn try_done(&mut self) -> bool {
        matches!(self.child.try_wait(), Ok(Some(_)))
    }
    pub fn kill(&mut self) {
        unsafe {
            libc::kill(self.pid as i32, libc::SIGKILL);
        }
    }
    pub fn kill_group(&mut self) {
        unsafe {
            libc::kill(-(self.pid as i32), libc::SIGKILL);
        }
    }
    pub fn wait(mut self, timeout: Duration) -> MrOut {
        use std::os::unix::process::ExitStatusExt;
        let deadline = Instant::now() + timeout;
        let mut timed_out = false;
        let status = loop {
            match self.child.try_wait() {
                Ok(Some(st)) => break Some(st),
                Ok(None) => {
                    if Instant::now() > deadline {
                        timed_out = true;
                        self.kill_group();
                        break self.child.wait().ok();
                    }
                    std::thread::sleep(Duration::from_micros(500));
                }
                Err(_) => break None,
            }
        };
        // grandchildren may hold the pipes open; after the main process is gone give
        // the readers a moment, then kill the group so the readers see EOF
        let wall = self.t0.elapsed();
        let out_h = self.out.take().unwrap();
        let err_h = self.err.take().unwrap();
        let t1 = Instant::now();
        while !(out_h.is_finished() && err_h.is_finished()) {
            if t1.elapsed() > Duration::from_millis(300) {
                unsafe {
                    libc::kill(-(self.pid as i32), libc::SIGKILL);
                }
            }
            if t1.elapsed() > Duration::from_secs(10) {
                break;
            }
            std::thread::sleep(Duration::from_millis(1));
        }
        let stdout = if out_h.is_finished() { out_h.join().unwrap_or_default() } else { vec![] };
        let stderr = if err_h.is_finished() { err_h.join().unwrap_or_default() } else { vec![] };
        MrOut {
            code: status.and_then(|s| s.code()),
            signal: status.and_then(|s| s.signal()),
            stdout,
            stderr,
            timed_out,
            wall,
            pid: self.pid,
        }
    }
}

// ---------------------------------------------------------------------------
// run output document

#[derive(Debug, Clone, Serialize, PartialEq)]
pub struct TaskResult {
    pub status: String,
    pub code: Option<i64>,
}

#[derive(Debug, Clone, Serialize)]
pub struct RunDoc {
    pub failed: bool,
    pub checkpointed: bool,
    pub invocation: String,
    pub run_path: String,
    pub target_hashes: BTreeMap<String, String>,
    /// per command, in order: (command, groups: [ {target: result} ])
    pub results: Vec<(String, Vec<BTreeMap<String, TaskResult>>)>,
}

pub fn parse_run(v: &Value) -> Result<RunDoc, String> {
    let failed = v.get("failed").and_then(|b| b.as_bool()).ok_or("run output lacks `failed`")?;
    let mut results = vec![];
    for r in v.get("results").and_then(|r| r.as_array()).ok_or("run output lacks `results`")? {
        let cmd = r.get("command").and_then(|c| c.as_str()).ok_or("result lacks command")?.to_string();
        let mut groups = vec![];
        for g in r.get("target_groups").and_then(|g| g.as_array()).ok_or("result lacks target_groups")? {
            let mut m = BTreeMap::new();
            for (t, tr) in g.as_object().ok_or("group is not an object")? {
                m.insert(
                    t.clone(),
                    TaskResult {
                        status: tr.get("status").and_then(|s| s.as_str()).unwrap_or("").to_string(),
                        code: tr.get("code").and_then(|c| c.as_i64()),
                    },
                );
            }
            groups.push(m);
        }
        results.push((cmd, groups));
    }
    let run = v.get("out").and_then(|o| o.get("run"));
    let mut target_hashes = BTreeMap::new();
    if let Some(ts) = run.and_then(|r| r.get("targets")).and_then(|t| t.as_object()) {
        for (k, h) in ts {
            target_hashes.insert(k.clone(), h.as_str().unwrap_or("").to_string());
        }
    }
    Ok(RunDoc {
        failed,
        checkpointed: v.get("checkpointed").and_then(|b| b.as_bool()).unwrap_or(false),
        invocation: v.get("invocation").and_then(|s| s.as_str()).unwrap_or("").to_string(),
        run_path: run
            .and_then(|r| r.get("path"))
            .and_then(|p| p.as_str())
            .unwrap_or("")
            .to_string(),
        target_hashes,
        results,
    })
}

/// Remove the `timestamp` field (the only part of an output that legitimately
/// differs between two invocations).
pub fn strip_timestamp(v: &Value) -> Value {
    let mut v = v.clone();
    if let Some(o) = v.as_object_mut() {
        o.remove("timestamp");
    }
    v
}

/// Strip timestamp and per-task `runtime_secs` from a run document.
pub fn normalize_run_doc(v: &Value) -> Value {
    fn rec(v: &mut Value) {
        match v {
            Value::Object(o) => {
                o.remove("runtime_secs");
                for (_, x) in o.iter_mut() {
                    rec(x);
                }
            }
            Value::Array(a) => {
                for x in a.iter_mut() {
                    rec(x);
                }
            }
            _ => {}
        }
    }
    let mut v = strip_timestamp(v);
    rec(&mut v);
    v
}

pub fn sha256_hex(b: &[u8]) -> String {
    use sha2::{Digest, Sha256};
    hex(&Sha256::digest(b))
}

pub fn decode_zst(p: &Path) -> Result<Vec<u8>, String> {
    let f = std::fs::File::open(p).map_err(|e| format!("open {}: {}", p.display(), e))?;
    zstd::stream::decode_all(f).map_err(|e| format!("decode {}: {}", p.display(), e))
}

/// Stored log of (command, target) in a run directory.
pub fn stored_log(run_path: &Path, command: &str, target: &str, stream: &str) -> Result<Vec<u8>, String> {
    let p = run_path
        .join(command)
        .join(sha256_hex(target.as_bytes()))
        .join(format!("{}.zst", stream));
    decode_zst(&p)
}

/// Snapshot of every file under a directory: relative path -> sha256 of content.
pub fn snapshot_dir(root: &Path) -> BTreeMap<String, String> {
    let mut out = BTreeMap::new();
    let mut stack = vec![root.to_path_buf()];
    while let Some(d) = stack.pop() {
        if let Ok(rd) = std::fs::read_dir(&d) {
            for e in rd.flatten() {
                let p = e.path();
                if p.is_dir() {
                    out.insert(format!("{}/", p.strip_prefix(root).unwrap().display()), String::new());
                    stack.push(p);
                } else {
                    let h = std::fs::read(&p).map(|b| sha256_hex(&b)).unwrap_or_default();
                    out.insert(p.strip_prefix(root).unwrap().display().to_string(), h);
                }
            }
        }
    }
    out
}

// ---------------------------------------------------------------------------
// simple set-ups shared by several properties

/// Relative path of the by-stem command file used by the simple set-up.
pub fn simple_cmd_file(cfg: &ConfigSpec, target: &str, command: &str) -> String {
    let t = cfg.target(target).expect("target");
    format!("{}/{}.sh", t.commands_dir(), command)
}

/// Install one executable command file per (command, target) in `defined` and
/// register its behaviour.
pub fn install_simple(
    env: &Env,
    cfg: &ConfigSpec,
    behaviors: &BTreeMap<(String, String), Behavior>,
) {
    let mut plan = BTreeMap::new();
    for ((cmd, target), b) in behaviors {
        let f = simple_cmd_file(cfg, target, cmd);
        env.install_command(&f, true);
        plan.insert((f, target.clone()), b.clone());
    }
    env.set_plan(&plan);
}

/// (command, target) of a trace produced by the simple set-up.
pub fn trace_key(env: &Env, t: &Trace) -> (String, String) {
    let exe = env.rel(&t.exe);
    let cmd = Path::new(&exe)
        .file_stem()
        .map(|s| s.to_string_lossy().to_string())
        .unwrap_or_default();
    (cmd, env.rel(&t.cwd))
}

/// Commit everything and place a checkpoint at HEAD.
pub fn commit_all_and_checkpoint(env: &mut Env) -> Result<(), String> {
    env.git_init()?;
    // the out directory named by the installed configuration is not part of the repository
    let out_dir = std::fs::read(env.config_path())
        .ok()
        .and_then(|b| serde_json::from_slice::<Value>(&b).ok())
        .and_then(|v| v.get("out_dir").and_then(|o| o.as_str()).map(String::from))
        .unwrap_or_else(|| "monorail-out".to_string());
    std::fs::write(env.path(".gitignore"), format!("monorail-out/\n/{}/\n", out_dir)).map_err(|e| e.to_string())?;
    env.git_ok(&["add", "-A"])?;
    env.git_ok(&["commit", "-q", "-m", "init"])?;
    let o = env.mr(&["checkpoint", "update"]);
    if !o.ok() {
        return Err(format!("checkpoint update failed: {}", o.stderr_str()));
    }
    Ok(())
}

/// Create the given repo-relative paths as new files, skipping those that cannot
/// exist together with what is already there (a directory of that name, a parent
/// that is a file). Returns the paths actually created.
pub fn create_files(env: &Env, paths: &[String], ascii_only: bool) -> Vec<String> {
    let mut created = vec![];
    for p in paths {
        if ascii_only && !p.is_ascii() {
            continue;
        }
        if p.is_empty() || p.starts_with('/') || p.contains("//") || p.ends_with('/') {
            continue;
        }
        let abs = env.path(p);
        if abs.exists() {
            continue;
        }
        // no parent component may be a file
        let mut ok = true;
        let mut cur = abs.parent();
        while let Some(d) = cur {
            if d == env.repo {
                break;
            }
            if d.is_file() {
                ok = false;
                break;
            }
            cur = d.parent();
        }
        if !ok {
            continue;
        }
        if let Some(d) = abs.parent() {
            if std::fs::create_dir_all(d).is_err() {
                continue;
            }
        }
        if std::fs::write(&abs, format!("content of {}\n", p)).is_ok() {
            created.push(p.clone());
        }
    }
    created
}

// ---------------------------------------------------------------------------
// `log show` / `log tail` output

/// One header-introduced block: (stream, target, command) and the bytes after it.
#[derive(Debug, Clone, Serialize, PartialEq, Eq, PartialOrd, Ord)]
pub struct LogBlock {
    pub stream: String,
    pub target: String,
    pub command: String,
    pub bytes: Vec<u8>,
}

fn strip_ansi(s: &str) -> String {
    let mut out = String::new();
    let mut it = s.chars().peekable();
    while let Some(c) = it.next() {
        if c == '\x1b' && it.peek() == Some(&'[') {
            it.next();
            for d in it.by_ref() {
                if d.is_ascii_alphabetic() {
                    break;
                }
            }
        } else {
            out.push(c);
        }
    }
    out
}

/// Parse a header line `[monorail | stdout.zst | target | command]`.
pub fn parse_header(line: &[u8]) -> Option<(String, String, String)> {
    let s = std::str::from_utf8(line).ok()?;
    let s = strip_ansi(s.trim_end_matches('\n'));
    let inner = s.strip_prefix("[monorail | ")?.strip_suffix(']')?;
    let parts: Vec<&str> = inner.split(" | ").collect();
    if parts.len() != 3 {
        return None;
    }
    let stream = parts[0].strip_suffix(".zst").unwrap_or(parts[0]).to_string();
    Some((stream, parts[1].to_string(), parts[2].to_string()))
}

/// Split output into header-introduced blocks. Bytes before the first header are
/// returned separately.
pub fn parse_blocks(data: &[u8]) -> (Vec<u8>, Vec<LogBlock>) {
    let mut pre = vec![];
    let mut blocks: Vec<LogBlock> = vec![];
    let mut pos = 0;
    while pos < data.len() {
        let end = data[pos..].iter().position(|&b| b == b'\n').map(|i| pos + i + 1).unwrap_or(data.len());
        let line = &data[pos..end];
        if line.starts_with(b"[monorail | ") {
            if let Some((stream, target, command)) = parse_header(line) {
                blocks.push(LogBlock {
                    stream,
                    target,
                    command,
                    bytes: vec![],
                });
                pos = end;
                continue;
            }
        }
        match blocks.last_mut() {
            Some(b) => b.bytes.extend_from_slice(line),
            None => pre.extend_from_slice(line),
        }
        pos = end;
    }
    (pre, blocks)
}

/// Verify that `data` is exactly a concatenation, in any order, of
/// `header(stream,target,command) ++ bytes` for every non-empty expected log and
/// nothing else. Guided by the expectation, so logs without a final newline and
/// binary logs are handled.
pub fn verify_show(
    data: &[u8],
    expected: &BTreeMap<(String, String, String), Vec<u8>>,
) -> Result<(), (String, String)> {
    let mut pos = 0;
    let mut seen: std::collections::BTreeSet<(String, String, String)> = Default::default();
    while pos < data.len() {
        let end = data[pos..].iter().position(|&b| b == b'\n').map(|i| pos + i + 1).unwrap_or(data.len());
        let Some(key) = parse_header(&data[pos..end]) else {
            return Err((
                "no-header".into(),
                format!("expected a header at offset {}, found {:?}", pos, String::from_utf8_lossy(&data[pos..end.min(pos + 80)])),
            ));
        };
        pos = end;
        let Some(want) = expected.get(&key) else {
            return Err(("unexpected-header".into(), format!("header for {:?}, which has no (non-empty) log", key)));
        };
        if want.is_empty() {
            return Err(("empty-header".into(), format!("header printed for the empty log {:?}", key)));
        }
        if !seen.insert(key.clone()) {
            return Err(("duplicate-header".into(), format!("second header for {:?}", key)));
        }
        if data.len() < pos + want.len() || &data[pos..pos + want.len()] != want.as_slice() {
            let avail = &data[pos..(pos + want.len()).min(data.len())];
            let first = want.iter().zip(avail.iter()).position(|(a, b)| a != b).unwrap_or(avail.len());
            return Err((
                "bytes-differ".into(),
                format!("block {:?}: printed bytes differ from the log at offset {} of {}", key, first, want.len()),
            ));
        }
        pos += want.len();
    }
    for (k, v) in expected {
        if !v.is_empty() && !seen.contains(k) {
            return Err(("missing-block".into(), format!("no block for the non-empty log {:?}", k)));
        }
    }
    Ok(())
}

// ---------------------------------------------------------------------------
// log listeners

/// Is some socket listening on 127.0.0.1:port? (reads /proc/net/tcp; no probe connection)
pub fn is_listening(port: u16) -> bool {
    let want = format!(":{:04X}", port);
    if let Ok(s) = std::fs::read_to_string("/proc/net/tcp") {
        for line in s.lines().skip(1) {
            let f: Vec<&str> = line.split_whitespace().collect();
            if f.len() > 3 && f[1].ends_with(&want) && f[3] == "0A" {
                return true;
            }
        }
    }
    false
}

pub fn wait_listening(port: u16, timeout: Duration) -> bool {
    let t0 = Instant::now();
    while t0.elapsed() < timeout {
        if is_listening(port) {
            return true;
        }
        std::thread::sleep(Duration::from_millis(2));
    }
    false
}

pub fn wait_not_listening(port: u16, timeout: Duration) -> bool {
    let t0 = Instant::now();
    while t0.elapsed() < timeout {
        if !is_listening(port) {
            return true;
        }
        std::thread::sleep(Duration::from_millis(2));
    }
    false
}
