//! Deterministic bulk output (shared by the harness and the helper executable): `total` bytes,
//! as lines of `line` bytes (newline included; the last one is cut where the total is reached),
//! or without any newline when `line` is 0.

pub fn fill_bytes(total: usize, line: usize, tag: u32) -> Vec<u8> {
    let mut v = Vec::with_capacity(total + 64);
    let mut x: u64 = 0x9E37_79B9_7F4A_7C15 ^ tag as u64;
    let mut i: u64 = 0;
    while v.len() < total {
        let end = if line == 0 { total } else { (v.len() + line).min(total) };
        let full = line != 0 && end - v.len() == line;
        v.extend_from_slice(format!("<f{}:{:08}>", tag, i).as_bytes());
        while v.len() < end {
            x ^= x << 13;
            x ^= x >> 7;
            x ^= x << 17;
            v.push(b'a' + (x % 26) as u8);
        }
        v.truncate(end);
        if full {
            let n = v.len();
            v[n - 1] = b'\n';
        }
        i += 1;
    }
    v
}
