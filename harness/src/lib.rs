pub mod bb;
pub mod gen;
pub mod hist;
pub mod jsonw;
pub mod model;
pub mod props;
pub mod runner;
pub mod scratch;
