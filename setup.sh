#!/bin/sh
# MANIFEST.setup_cmd: build everything from files on disk only.
exec /verif/build.sh
