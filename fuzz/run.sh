#!/bin/sh
# usage: fuzz/run.sh <ID>   - bounded libFuzzer campaign(s) for the in-process properties.
# Writes /verif/.build/fuzz-<ID>.json (statistics, and the replay file of a violation if one was found).
ID=$1
SEED=${VERIF_SEED:-0}
case "$ID" in
  C01) TARGET=fz_c01; RUNS=${FUZZ_RUNS:-3000}; MAXLEN=2048 ;;
  C03|C09) TARGET=fz_c03c09; RUNS=${FUZZ_RUNS:-30000}; MAXLEN=512 ;;
  C10) TARGET=fz_c10; RUNS=${FUZZ_RUNS:-30000}; MAXLEN=512 ;;
  C08) TARGET=fz_c08; RUNS=${FUZZ_RUNS:-1500}; MAXLEN=256 ;;
  C18) TARGET=fz_c18; RUNS=${FUZZ_RUNS:-8000}; MAXLEN=512 ;;
  *) exit 0 ;;
esac
OUT=/verif/.build/fuzz-$ID.json
rm -f "$OUT"
export CARGO_NET_OFFLINE=true
# monorail's change analysis runs on rayon's global pool (one thread per core): with one
# libFuzzer process that only adds wake-up latency per execution (3 exec/s on a busy machine)
export RAYON_NUM_THREADS=2
export RUSTFLAGS="--cfg tokio_unstable --cfg pnordahl_monorail_verif"
cd /verif/fuzz || exit 2
LOG=/verif/.build/fuzz-$ID.log
if ! cargo +nightly fuzz build -s none --fuzz-dir /verif/fuzz --target-dir /verif/.build/fuzz "$TARGET" >"$LOG" 2>&1; then
  tail -20 "$LOG"; echo "INCONCLUSIVE fuzz build failed"; exit 2
fi
BIN=/verif/.build/fuzz/x86_64-unknown-linux-gnu/release/$TARGET
# the targets keep their work directory under MRV_SCRATCH/mrverif-<pid>: give them one that is removed afterwards
MRV_SCRATCH=$(mktemp -d /dev/shm/mrvfuzz.XXXXXX 2>/dev/null || mktemp -d /tmp/mrvfuzz.XXXXXX); export MRV_SCRATCH
trap 'rm -rf "$MRV_SCRATCH"' EXIT INT TERM
total_runs=0; crashed=false; replay=""
# K independent campaigns per starting corpus (empty / seeded), all 2K at once: libFuzzer is
# single-threaded, the machine has 16 cores. Each instance has its own corpus, artefact
# directory, log and -seed (VERIF_SEED + 1 + 100*k for the empty start, + 50 more for the seeded one).
K=${FUZZ_INSTANCES:-4}
pids=""
for START in empty seeded; do
  k=0
  while [ $k -lt $K ]; do
    CORPUS=/verif/.build/fuzz-corpus-$ID-$START-$k
    ART=/verif/.build/fuzz-artifacts-$ID-$START-$k/
    rm -rf "$CORPUS" "$ART"; mkdir -p "$CORPUS" "$ART"
    off=0
    if [ "$START" = seeded ]; then
      off=50
      # pseudo-random starting inputs derived from the seed (libFuzzer ramps up length slowly from an empty corpus)
      python3 - "$CORPUS" "$((SEED + k))" "$MAXLEN" <<'PY'
import sys,random,os
d,seed,maxlen=sys.argv[1],int(sys.argv[2]),int(sys.argv[3])
rnd=random.Random(seed)
for i in range(16):
    open(os.path.join(d,'r%d'%i),'wb').write(bytes(rnd.getrandbits(8) for _ in range(rnd.randint(8,maxlen))))
PY
    fi
    ILOG=/verif/.build/fuzz-$ID-$START-$k.log
    ( "$BIN" "$CORPUS" -runs=$RUNS -seed=$((SEED + 1 + off + 100 * k)) -max_len=$MAXLEN -len_control=0 -artifact_prefix="$ART" -print_final_stats=1 -timeout=60 -rss_limit_mb=4096 >"$ILOG" 2>&1; echo "exit=$?" >>"$ILOG" ) &
    pids="$pids $!"
    k=$((k+1))
  done
done
wait $pids
cov=0; corp=0
for START in empty seeded; do
  k=0
  while [ $k -lt $K ]; do
    ILOG=/verif/.build/fuzz-$ID-$START-$k.log
    cat "$ILOG" >>"$LOG"
    r=$(grep -a "stat::number_of_executed_units" "$ILOG" | tail -1 | awk '{print $2}')
    total_runs=$((total_runs + ${r:-0}))
    c=$(grep -a "cov:" "$ILOG" | tail -1 | sed 's/.*cov: \([0-9]*\).*/\1/')
    [ "${c:-0}" -gt "$cov" ] 2>/dev/null && cov=$c
    n=$(ls /verif/.build/fuzz-corpus-$ID-$START-$k 2>/dev/null | wc -l); corp=$((corp + n))
    if ! grep -aq "^exit=0" "$ILOG"; then
      crashed=true
      rp=$(grep -a "FUZZ-VIOLATION" "$ILOG" | tail -1 | sed 's/.*replay=\([^ ]*\).*/\1/')
      [ -n "$rp" ] && replay=$rp
    fi
    k=$((k+1))
  done
done
printf '{"engine":"libFuzzer","target":"%s","runs":%s,"coverage_edges":%s,"corpus_files":%s,"starts":["empty","seeded"],"instances":%s,"crashed":%s,"replay":"%s"}\n' "$TARGET" "${total_runs:-0}" "${cov:-0}" "${corp:-0}" "$((2 * K))" "$crashed" "$replay" > "$OUT"
cat "$OUT"
exit 0
