#![no_main]
use libfuzzer_sys::fuzz_target;
use mrverif::gen::decode::Bytes;
use mrverif::props::c18;
use mrverif::runner::CheckError;

// bytes -> (configuration value, serialisations); the in-process oracle of C18: loading every
// serialisation gives what loading the compact form gives
fuzz_target!(|data: &[u8]| {
    let mut b = Bytes::new(data);
    let case = c18::decode_case(&mut b);
    if let Err(CheckError::Violation(v)) = c18::check_inproc(&case, 0) {
        mrverif::fuzzsupport::report("C18", "inproc-load", &case, &v);
    }
});
