#![no_main]
use libfuzzer_sys::fuzz_target;
use mrverif::gen::{self, decode::Bytes, CycleMode};
use mrverif::props::c03::{self, Side};
use mrverif::runner::CheckError;

// first byte selects raw-graph or configuration form; both C03 and C09 judge the case
fuzz_target!(|data: &[u8]| {
    let mut b = Bytes::new(data);
    let form = b.u8();
    if form % 2 == 0 {
        // raw digraph on up to 12 nodes from an adjacency bit stream
        let n = 1 + b.below(12);
        let mut adj = vec![vec![]; n];
        for i in 0..n {
            for j in 0..n {
                if i != j && b.u8() % 4 == 0 {
                    adj[i].push(j);
                }
            }
        }
        let mut roots: Vec<usize> = (0..n).filter(|_| b.u8() % 2 == 0).collect();
        if roots.is_empty() {
            roots.push(0);
        }
        let case = c03::DagCase { n, adj, roots };
        for (side, id) in [(Side::Acyclic, "C03"), (Side::Cyclic, "C09")] {
            if let Err(CheckError::Violation(v)) = c03::check_dag(&case, side) {
                mrverif::fuzzsupport::report(id, "dag-fuzz", &case, &v);
            }
        }
    } else {
        let mode = match b.u8() % 3 {
            0 => CycleMode::Acyclic,
            1 => CycleMode::ForcedCycle,
            _ => CycleMode::Any,
        };
        let raw = gen::decode::raw_config(&mut b, 12, 3, 1);
        let config = gen::build_config(&raw, mode);
        let n = config.targets.len();
        let mut visible: Vec<String> = if b.u8() % 2 == 0 {
            config.target_paths()
        } else {
            (0..1 + b.below(3)).map(|_| config.targets[b.below(n)].path.clone()).collect()
        };
        visible.sort();
        visible.dedup();
        let mut changes: Vec<String> = (0..b.below(8)).map(|_| gen::change_path(&config, b.u8() % 9, b.u16(), b.u16())).collect();
        changes.sort();
        changes.dedup();
        let case = c03::CfgCase { config, visible, changes };
        for (side, id) in [(Side::Acyclic, "C03"), (Side::Cyclic, "C09")] {
            if let Err(CheckError::Violation(v)) = c03::check_cfg(&case, side) {
                mrverif::fuzzsupport::report(id, "config-fuzz", &case, &v);
            }
        }
    }
});
