#![no_main]
use libfuzzer_sys::fuzz_target;
use mrverif::bb::Step;
use mrverif::gen::decode::Bytes;
use mrverif::props::c08;
use mrverif::runner::CheckError;

// bytes -> write/pause scripts on 2..8 streams; the chunk contents are taken from the input itself
fuzz_target!(|data: &[u8]| {
    let mut b = Bytes::new(data);
    let rng_seed = b.u64();
    let tasks = 1 + b.below(4);
    let mut streams: Vec<Vec<Step>> = vec![vec![]; 2 * tasks];
    let pauses = [0u64, 1, 499, 500, 501, 700, 1000, 1200];
    let mut steps = 0;
    while !b.exhausted() && steps < 40 {
        steps += 1;
        let s = b.below(2 * tasks);
        let op = b.u8();
        if op % 3 == 0 {
            streams[s].push(Step::P(pauses[b.below(pauses.len())]));
        } else {
            let len = match op % 7 {
                0 => 9000,
                1 => 70_000,
                _ => b.below(40),
            };
            let fill = b.u8();
            let mut chunk: Vec<u8> = (0..len).map(|i| if len > 100 { fill.wrapping_add((i % 7) as u8) } else { b.u8() }).collect();
            if op & 0x80 != 0 {
                chunk.push(b'\n');
            }
            if !chunk.is_empty() {
                streams[s].push(Step::W(chunk));
            }
        }
    }
    let case = c08::Case { streams, rng_seed };
    if let Err(CheckError::Violation(v)) = c08::check_inproc(&case, 0) {
        mrverif::fuzzsupport::report("C08", "inproc", &case, &v);
    }
});
