#![no_main]
use libfuzzer_sys::fuzz_target;
use mrverif::gen::{self, decode::Bytes, CycleMode};
use mrverif::props::c01;
use mrverif::runner::CheckError;

// bytes -> the same Case type as the proptest strategy, judged by the same oracle
fuzz_target!(|data: &[u8]| {
    let mut b = Bytes::new(data);
    let mode = if b.u8() % 8 == 0 { CycleMode::Any } else { CycleMode::Acyclic };
    let raw = gen::decode::raw_config(&mut b, 10, 3, 3);
    let config = gen::build_config(&raw, mode);
    let rot = b.u16() as usize;
    let mut changes: Vec<String> = vec![];
    let mut seen = std::collections::BTreeSet::new();
    let mut n = 0;
    while !b.exhausted() && n < 400 {
        let p = gen::change_path(&config, b.u8() % 9, b.u16(), b.u16());
        if seen.insert(p.clone()) {
            changes.push(p);
        }
        n += 1;
    }
    let case = c01::Case { config, changes, rot };
    if let Err(CheckError::Violation(v)) = c01::check(&case, 0) {
        mrverif::fuzzsupport::report("C01", "inproc", &case, &v);
    }
});
