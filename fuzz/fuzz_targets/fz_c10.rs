#![no_main]
use libfuzzer_sys::fuzz_target;
use mrverif::gen::{self, decode::Bytes, CycleMode};
use mrverif::props::c10;
use mrverif::runner::CheckError;

fuzz_target!(|data: &[u8]| {
    let mut b = Bytes::new(data);
    let raw = gen::decode::raw_config(&mut b, 12, 4, 2);
    let case = c10::Case { config: gen::build_config(&raw, CycleMode::Any) };
    if let Err(CheckError::Violation(v)) = c10::check(&case, 0) {
        mrverif::fuzzsupport::report("C10", "inproc", &case, &v);
    }
});
