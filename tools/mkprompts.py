#!/usr/bin/env python3
# usage: tools/mkprompts.py <round>  - writes /tmp/prompt<round>-<ID>.txt for the seeded-defect sub-agents
# (each gets only the property text, one-line descriptions of earlier seeds to avoid, and a scratch worktree /tmp/seed<round>-<ID>)
import json,os,sys
R=sys.argv[1]
props={json.loads(l)['id']:json.loads(l) for l in open('/verif/properties.jsonl')}
used={}
for d in sorted(os.listdir('/verif/seeded')):
    m=json.load(open(f'/verif/seeded/{d}/meta.json'))
    used.setdefault(m['property'],[]).append(m['what_it_breaks'])
tmpl='''You are helping evaluate a verification effort for the Rust CLI tool `monorail` (a monorepo orchestrator). Your job: write ONE realistic source change (a "seeded defect") to monorail that BREAKS the behavioural property quoted below, while the crate still compiles and its existing test suite still passes.

Work ONLY inside this scratch git worktree of the repository: {wt}
(It is a detached checkout. Do not touch /repo or /verif or any other directory; do not look at /verif at all. To speed up the first build you may run: cp -r /repo/target {wt}/target )
Everything is offline; build with `cargo build --offline` and run the existing tests with `cargo test --offline` from the worktree. The repo's .cargo/config.toml already sets the needed rustflags. Ignore any `#[cfg(pnordahl_monorail_verif)]` code: it is instrumentation that is compiled out in normal builds; do not change it and do not rely on it.

THE PROPERTY ({pid} - {title}):
{statement}

It is meant to hold: {quant}

Other people have ALREADY contributed the following seeded defects for this property; yours must be a genuinely DIFFERENT idea (different code site and different triggering condition), not a variation of any of them. Re-read the property sentence by sentence and the quantifier clause by clause, and pick a clause, an API mentioned in it, or a combination of options/inputs that NONE of these touches:
{used}

What I need from you:
1. A change to monorail's source (src/**) that makes the property false for at least some inputs/schedules/histories, but that
   - still compiles without new warnings,
   - leaves `cargo test --offline` fully passing (all existing tests, unedited),
   - looks like a plausible mistake or ill-considered refactor/optimisation a developer could make (not sabotage like `if x == "magic"`), and
   - needs something SPECIFIC to manifest - a particular interleaving, a crash or fault at a particular point, a multi-step sequence of operations, an unusual input (size, name, ordering, boundary), or two cooperating sites that each look fine alone. It must NOT be exposed at once by ordinary use (e.g. the simplest `monorail run`/`analyze` on a small repo should still behave correctly).
2. A demonstration: a small self-contained script (bash or python3) placed in {wt}/seed_demo/ that FAILS (non-zero exit) when run against the changed tree and PASSES against the unchanged tree. The demo should drive the built binary `target/debug/monorail` on a throw-away repository it creates under a temp dir (never inside the worktree), and clean up after itself. Tips: monorail needs `-f <absolute path to Monorail.json>`; run it with cwd = the repo root; every target directory must contain at least one file; commands live in `<target>/monorail/cmd/<name>.sh` (executable); give each demo its own `"server": {{"lock": {{"port": N}}, "log": {{"port": N+1}}}}` ports (random in 30000-60000) in Monorail.json; set git identity via env (GIT_AUTHOR_NAME etc.) and `git init -q -b main`. Read README.md / TUTORIAL.md / Monorail.reference.js in the worktree for the config format and CLI.
3. When done, leave the change UNCOMMITTED in the worktree (so `git -C {wt} diff` shows exactly your patch; seed_demo/ untracked, no other stray files), make sure you have verified BOTH directions yourself (demo fails with the patch, passes without it; `cargo test --offline` passes with the patch - if a test fails once because of a port clash with other people testing in parallel, re-run it), and reply with: (a) a one-paragraph description of the change and why it breaks the property, (b) exactly what it needs in order to manifest, (c) the commands you ran to verify and their outcomes. Do not commit anything.

IMPORTANT housekeeping: do NOT use `git stash` (shared between worktrees). To compare with the unchanged tree use: `git diff > /tmp/my{R}-{pid}.patch; git apply -R /tmp/my{R}-{pid}.patch; ...; git apply /tmp/my{R}-{pid}.patch`. The machine is busy; builds and tests may be slow.

Be efficient: one good seeded defect is enough. If your first idea turns out to be caught by the existing tests, adjust it.'''
for pid in sorted(props):
    p=props[pid]
    u='\n'.join('- '+x for x in used.get(pid,[]))
    open(f'/tmp/prompt{R}-{pid}.txt','w').write(tmpl.format(R=R,wt=f'/tmp/seed{R}-{pid}',pid=pid,title=p['title'],statement=p['statement'],quant=p['quantifier']['text'],used=u))
print('ok')
