#!/bin/sh
# usage: tools/runall.sh [tier] [ids...]  - runs checks one after the other, prints one line each
TIER=${1:-quick}; shift 2>/dev/null
IDS=${*:-"C01 C02 C03 C04 C05 C06 C07 C08 C09 C10 C11 C12 C13 C14 C15 C16 C17 C18 C19 C20"}
cd /verif || exit 2
rc=0
for id in $IDS; do
  s=$(date +%s)
  out=$(./check "$id" --tier "$TIER" 2>&1); code=$?
  e=$(date +%s)
  echo "$id exit=$code $((e-s))s $(echo "$out" | grep -E '^(OK|FAIL|INCONCLUSIVE)' | tail -1)"
  if [ $code -ne 0 ]; then rc=1; echo "$out" | grep -E 'VIOLATION|violation detail|INCONCLUSIVE|inconclusive' | head -5; fi
done
exit $rc
