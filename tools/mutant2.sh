#!/bin/sh
# usage: tools/mutant2.sh <patch> <ID> [tier]
# Like mutant.sh, but against a scratch worktree of /repo under /tmp/mut with its own copy of the
# harness and its own target directory, so that it can run while other checks use /repo itself.
# (Scratch only: nothing registered in MANIFEST.json uses this; remove /tmp/mut when done.)
PATCH=$(realpath "$1"); ID=$2; TIER=${3:-quick}
MUT=/tmp/mut
export CARGO_NET_OFFLINE=true
if [ ! -d $MUT/repo ]; then
  mkdir -p $MUT
  git -C /repo worktree add -q --detach $MUT/repo HEAD || exit 2
fi
git -C $MUT/repo checkout -q --detach "$(git -C /repo rev-parse HEAD)" 2>/dev/null
git -C $MUT/repo checkout -- . 
rsync -a --delete --exclude target /verif/harness/ $MUT/harness/
sed -i "s#path = \"/repo\"#path = \"$MUT/repo\"#" $MUT/harness/Cargo.toml
sed -i "s#target-dir = \"/verif/.build\"#target-dir = \"$MUT/build\"#" $MUT/harness/.cargo/config.toml
git -C $MUT/repo apply "$PATCH" || { echo "patch does not apply"; exit 2; }
cd $MUT/harness || exit 2
if ! cargo build --bins > $MUT/build.log 2>&1 || ! cargo build --manifest-path $MUT/repo/Cargo.toml --bin monorail >> $MUT/build.log 2>&1; then
  tail -20 $MUT/build.log; git -C $MUT/repo checkout -- .; echo "INCONCLUSIVE build failed"; exit 2
fi
MRV_EVIDENCE_DIR=$MUT/evidence MRV_MONORAIL=$MUT/build/debug/monorail $MUT/build/debug/mrverif "$ID" --tier "$TIER"
code=$?
git -C $MUT/repo checkout -- .
exit $code
