#!/bin/sh
# usage: tools/round.sh <round> <ID> <seed-name> [check ids...]
# Confirms the seeded change left in /tmp/seed<round>-<ID> (tools/verify_seed.sh), and if confirmed runs the
# quick tier of the given checks (default: <ID>) against it in the scratch copy (tools/mutant2.sh).
# Serialised through a lock directory, because mutant2.sh has one scratch copy.
R=$1; ID=$2; NAME=$3; shift 3
CHECKS=${*:-$ID}
WT=/tmp/seed$R-$ID
LOG=/tmp/round$R-$ID.log
: > $LOG
demo=$(ls $WT/seed_demo/*.sh $WT/seed_demo/*.py 2>/dev/null | grep -E "demo|run|test" | head -1)
[ -z "$demo" ] && demo=$(ls $WT/seed_demo/*.sh $WT/seed_demo/*.py 2>/dev/null | head -1)
case "$demo" in
  *.py) set -- python3 "seed_demo/$(basename $demo)" ;;
  *) set -- bash "seed_demo/$(basename $demo)" ;;
esac
/verif/tools/verify_seed.sh $WT $NAME $ID -- "$@" >> $LOG 2>&1
if ! grep -q "^CONFIRMED" $LOG; then echo "$NAME NOT CONFIRMED (see $LOG)"; exit 2; fi
while ! mkdir /tmp/mut.lock 2>/dev/null; do sleep 5; done
trap 'rmdir /tmp/mut.lock' EXIT
rc=0
for c in $CHECKS; do
  echo "== mutant2 $c" >> $LOG
  /verif/tools/mutant2.sh /verif/seeded/$NAME/patch.diff $c quick > /tmp/round$R-$ID-$c.out 2>&1; code=$?
  grep -E "violation detail|VIOLATION|^OK|^FAIL|INCONCLUSIVE" /tmp/round$R-$ID-$c.out | head -6 >> $LOG
  echo "== $c exit=$code" >> $LOG
  [ $code -eq 1 ] && rc=1
done
echo "$NAME confirmed; checks [$CHECKS] detected=$rc"; grep -E "tests with patch|demo exit|VIOLATION|== C.. exit" $LOG
