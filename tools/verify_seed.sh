#!/bin/sh
# usage: tools/verify_seed.sh <worktree> <name> <property> -- <demo command...>
# Confirms in the scratch worktree: patch builds, existing tests pass, demo FAILS with the patch and PASSES without.
WT=$1; NAME=$2; PROP=$3; shift 4
cd "$WT" || exit 2
git diff > /tmp/verify-$NAME.patch
[ -s /tmp/verify-$NAME.patch ] || { echo "no diff in $WT"; exit 2; }
echo "== files: $(git diff --stat | tail -1)"
cargo build --offline 2>&1 | grep -E "^(warning|error)" | sort | uniq -c
t=$(cargo test --offline 2>&1 | grep -E "^test result" | head -1); echo "== tests with patch: $t"
"$@" > /tmp/verify-$NAME.with.log 2>&1; with=$?
git apply -R /tmp/verify-$NAME.patch && cargo build --offline 2>&1 | grep -E "^error"
"$@" > /tmp/verify-$NAME.without.log 2>&1; without=$?
git apply /tmp/verify-$NAME.patch && cargo build --offline 2>&1 | grep -E "^error"
echo "== demo exit with patch: $with ; without patch: $without"
if [ $with -ne 0 ] && [ $without -eq 0 ]; then
  mkdir -p /verif/seeded/$NAME
  cp /tmp/verify-$NAME.patch /verif/seeded/$NAME/patch.diff
  rm -rf /verif/seeded/$NAME/demo; mkdir -p /verif/seeded/$NAME/demo
  cp -r seed_demo/. /verif/seeded/$NAME/demo/ 2>/dev/null
  find /verif/seeded/$NAME/demo -name "*.patch" -delete
  echo "CONFIRMED $NAME"
else
  echo "NOT CONFIRMED $NAME"; tail -5 /tmp/verify-$NAME.with.log; tail -5 /tmp/verify-$NAME.without.log
fi
