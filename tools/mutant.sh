#!/bin/sh
# usage: tools/mutant.sh <patch.diff> <ID> [tier]   - apply a patch to /repo, run one check, restore /repo
# prints the check's last lines; exit status: 0 = check stayed green (patch NOT detected), 1 = detected, 2 = inconclusive
P=$(realpath "$1"); ID=$2; TIER=${3:-quick}
cd /repo || exit 2
if ! git diff --quiet; then echo "/repo has uncommitted changes"; exit 2; fi
git apply "$(cd /verif && realpath "$P")" || { echo "patch does not apply"; exit 2; }
cd /verif
out=$(./check "$ID" --tier "$TIER" 2>&1); code=$?
git -C /repo checkout -- . 
git -C /repo clean -fdq -e target 2>/dev/null
echo "$out" | grep -E "violation detail|VIOLATION|^OK|^FAIL|INCONCLUSIVE" | head -6
exit $code
