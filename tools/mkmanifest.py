#!/usr/bin/env python3
"""Regenerates /verif/MANIFEST.json from the table below (single source of truth)."""
import json, subprocess

CHECKS = {
 # id: (level, technique, level text, level_note, design_ref)
 "C01": ("exploration", "property-based differential testing against a reference model (proptest) + metamorphic relations",
         "Random search with shrinking over configurations x change sets (in-process through the analyze hook, and through the real CLI on generated repositories) against an independent reference model of the change-to-target relation, plus order/duplication/split metamorphic relations. Exploration is the right level: the property quantifies over unbounded inputs and has an executable oracle.",
         "trusts the reference model in harness/src/model.rs (written from the statement), the analyze hook being a faithful wrapper of Index::new + analyze, and git printing plain names verbatim", "4/C01"),
 "C03": ("exploration", "bounded-exhaustive enumeration of digraphs + property-based testing with a validity predicate (proptest)",
         "Every labelled digraph on <=4 (quick) / <=5 (thorough) nodes x every root subset, random DAGs to 40 nodes and random acyclic configurations in random declaration order; any valid layering is accepted.",
         "trusts model::valid_layering/dep and the dag_groups/index_groups hooks", "4/C03"),
 "C09": ("exploration", "bounded-exhaustive enumeration of cyclic digraphs + property-based testing (proptest)",
         "Every labelled digraph with a cycle reachable from the roots on <=4/<=5 nodes, random cyclic graphs and configurations with a forced back edge (uses-only and nesting cycles): must be rejected with a cycle error, never grouped, never panic or hang (watchdog).",
         "hang = 30 s watchdog on a microsecond computation; trusts model::has_cycle_reachable", "4/C09"),
 "C10": ("exploration", "property-based set-equality check against a reference relation (proptest)",
         "Random target path sets and uses entries of every listed shape; the index's edge set (hook) and the rendered dot file (CLI) must equal dep(T,U) in both directions.",
         "trusts model::dep and the index_edges hook (read accessor of the adjacency list)", "4/C10"),
 "C02": ("exploration", "stateful model-based property testing (proptest op sequences against a repository-history model)",
         "Generated histories of create/edit/delete/move/stage/commit operations on a real git repository, mirrored in a model of commit trees, index and working tree, with interleaved checkpoint placements and `analyze --changes [--begin/--end]` observations compared as sets with the model. Files sit around the 64 KiB and 2 MiB I/O boundaries, edits may change only the tail or nothing but the mtime.",
         "trusts the history model in harness/src/hist.rs and git itself; mode changes, rm --cached, symlinks and names with newlines are outside the generated domain", "4/C02"),
 "C04": ("exploration", "property-based testing over schedules with a trace-based ordering invariant (proptest + helper executable traces)",
         "Generated acyclic configurations, selection modes, command/sequence lists and child run-time assignments; the helper executable every command runs records CLOCK_MONOTONIC start/end, and the invariant start(T) >= end(U) is checked for every dependency pair and consecutive commands. A size-boundary mode generates groups of 28-40 / 60-70 (thorough: up to 130) independent targets below their dependents.",
         "time stamps are taken inside the child (start after spawn, end before exit), so a correct scheduler cannot alarm; overlaps shorter than process start-up can be missed", "4/C04"),
 "C05": ("exploration", "property-based differential testing of run against analyze and a closure model (proptest + traces)",
         "Generated configurations x repository states x commands (some undefined) x selection modes; result document, `analyze --target-groups` taken immediately before, model closure and helper start records must agree exactly. A size-boundary mode (groups of 14-20, 30-36, 62-68 members), custom command directories and the identity of every started executable are part of the check.",
         "all helpers exit 0; new file names are ASCII", "4/C05"),
 "C06": ("fault_enumeration", "fault-injection property testing (proptest over fault placements and injected delays) + deterministic delay sweep",
         "Generated plan shapes with 0-3 faults of every kind at any position, --fail-on-undefined, child timings and delays injected at guarded points of the run's own bookkeeping; flag, exit status, skipped-ness and truthfulness of every status are judged against the helper traces.",
         "internal schedules are steered through delay points and TOKIO_WORKER_THREADS, not owned; siblings of a failed task are judged for truthfulness only", "4/C06"),
 "C07": ("exploration", "stateful model-based property testing (proptest op sequences, hot-file round trips)",
         "History prefix, `checkpoint update -p`, later edits and repeated updates on a real repository; after every update analyze and run must be empty, after every later operation the re-flagged targets must equal the model (pending map computed by the harness, not read back). Hot-file round trips (delete / re-create / tail edit / commit / update) and files larger than 2 MiB are generated deliberately.",
         "trusts the history model and model::affected; edits always produce never-seen content", "4/C07"),
 "C11": ("exploration", "property-based testing against an argv/cwd/resolution model (proptest): in-process over the plan the real handle_run builds (guarded plan-capture hook, 15000 cases per quick run) and end-to-end over helper start records",
         "Generated target layouts, command definitions of every kind, decoys, base/named/missing argmap files, --argmaps/--no-base-argmaps/--args with awkward argument strings; every planned and every started process must match the model's (exe, cwd, argv). Targets may share custom directories, use each other, and be run with -t X --deps. A run over these valid inputs that ends without a result is a violation.",
         "--args values never start with '-'; no two files share a stem in one command directory", "4/C11"),
 "C12": ("exploration", "stateful model-based property testing (run histories against a ring model)",
         "Histories of up to 3M+3 runs for M in 1..5 with differing commands, targets, outputs and failures; after every run result show, log show and log show --id are compared with the model of the ids in use; directory count bounded. Invocations that abort before completing are interleaved (max_retained_runs >= 2) and must leave everything pointing at the last completed run.",
         "a run's id is read from its printed document; failing runs use -t so that no sibling is cancelled", "4/C12"),
 "C16": ("exploration", "property-based testing with rendezvous (barrier) helpers",
         "Groups of 2..24 (quick) / 2..64 (thorough) members at varying plan positions, commands and tokio worker counts; all members wait for each other's start; completion is required. Group sizes include 31-34 and 63-66, and 30% of the scenarios have a log tail listener attached.",
         "liveness approximated by a 30 s barrier time-out confirmed with 60 s", "4/C16"),
 "C17": ("fault_enumeration", "tamper enumeration (in-process: every single-byte XOR under all 255 masks, truncation, insertion and removal at every offset of a small triple, every offset of a large one under three masks; through the CLI: one edit at every offset of a small triple) + property-based sampling of tampers on large configs",
         "After the real `config generate`, every API must work on the untouched triple and must fail without acting after any single XOR/truncate/append tamper of source, generated file or lockfile, at offsets incl. the 8 KiB buffer boundaries. Appends include NUL bytes and bytes repeating the content one buffer length earlier. A quarter of the sampled cases invoke everything from the directory above the repository. The in-process sweep drives the loading step (Config::new + check, guarded hook config_load) over about 4*10^5 tampered triples per quick run.",
         "two of thirteen APIs are exercised per tamper (rotating); lockfile edits that keep the checksum value are not judged; which directory a relative source.path refers to is left to `generate` (a case whose generate fails from the outer directory is inconclusive)", "4/C17"),
 "C18": ("exploration", "metamorphic property testing (re-serialisation of one JSON value): proptest through the CLI and in-process through the loading hook, libFuzzer target fz_c18 in the thorough tier",
         "A valid configuration value is written in 4-8 serialisations (whitespace, key order, escapes incl. \\/ and upper-case \\uXXXX, padding to sizes around and far beyond 8 KiB) by the harness's own writer; config show, target show -g and analyze --target-groups must give JSON-equal output and equal exit status, also with a checkpoint and the configuration file tracked by git. A non-ASCII character is aligned to end before, straddle, or start at multiples of 1-64 KiB. In-process: 4000 (thorough 150000) values x 8-18 serialisations up to 4 MiB through Config::new + check + fill (guarded hook config_load).",
         "validity of the value is established through the in-process hook; the writer is self-checked by parsing its output back", "4/C18"),
 "C19": ("exploration", "stateful model-based property testing (Option<checkpoint> model)",
         "Generated sequences of commits, edits, updates (no flags / --id sha / --id token / -p), show, delete, out delete --all, analyze and run; show must equal the last update's result, updates without --id must record git's HEAD, and without a checkpoint analyze/run must cover every target. Pending maps far larger than 64 KiB are generated.",
         "analyze/run are judged only in the no-checkpoint state here", "4/C19"),
 "C08": ("exploration", "round-trip property testing under a virtual clock (proptest + tokio paused time) and in real time through the CLI",
         "Generated write/pause scripts on 2-8 concurrent streams drive the real process_reader + Compressor through the capture hook under tokio's paused clock with a seeded select order, and the same scripts run as real helper processes under `monorail run`; every stored .zst must decode to exactly the bytes written, and log show must print one header plus exactly those bytes per non-empty log. Chunks include 130-600 KB of poorly compressible data (several zstd blocks).",
         "the in-process variant owns time but not the two compressor OS threads; the real-time variant judges tasks reported success", "4/C08"),
 "C13": ("fault_enumeration", "crash-point enumeration via guarded points + property-based timed SIGKILL",
         "For generated histories and victims, the victim's guarded points are recorded and the run is then killed at each (point, hit) from a restored pre-state, plus SIGKILLs at generated fractions of its duration; checkpoint/result/log observations must equal the pre-state (or, from the pointer write on, the complete victim), and the next run must succeed.",
         "crash points are the guarded points plus random kill times; unsynced-data (power loss) semantics are out of scope", "4/C13"),
 "C14": ("exploration", "property-based testing of multi-process schedules with an interval-disjointness invariant (proptest + guarded point log)",
         "Generated mixes of the four mutating APIs racing freely, and against a holder kept inside its critical section (gated helper or delay after acquisition) that ends normally, by failure or by SIGKILL; acquisition/release time stamps from the point log must never overlap, losers must fail with a lock error without starting anything or changing the out directory, and the next invocation must acquire at once. Bind attempts are time-stamped too: a process that tried while the lock was demonstrably held must never acquire (late contenders are started 110-400 ms before the holder ends).",
         "schedules are sampled (start offsets, holder kind), not owned; lock.release is logged before the guard drops, a killed holder's interval ends at a pre-kill time stamp", "4/C14"),
 "C15": ("fault_enumeration", "differential property testing with injected listener faults (proptest)",
         "The same generated run plan is executed without a listener and with a real `log tail` or a harness-owned fake listener under generated faults (killed before the run, killed/closed after a delay, closed after N bytes, closed before the handshake); exit status, failed flag, every (status, code) and the decoded stored logs must be equal. Plans contain lines split across the flush tick and streams without a final newline.",
         "listener death times are sampled; a listener that stays connected but stops reading is outside the quantifier", "4/C15"),
 "C20": ("exploration", "property-based testing of the tail stream with a block grammar and reassembly oracle (proptest)",
         "Runs with groups of up to 8/24 concurrently writing tasks whose lines carry their identity, under a real `log tail` with generated filters and tokio worker counts; the captured listener output must parse as header-introduced blocks, every line must belong to its block's task, blocks must reassemble to the stored log per (stream,target,command), and only admitted keys may appear. Lines may be written in two parts with the flush tick in between.",
         "interleavings of the per-task flushes are sampled (tokio worker count, pauses around the flush tick), not owned", "4/C20"),
}

NOT_YET = {}

def main():
    props = [json.loads(l) for l in open('/verif/properties.jsonl')]
    ids = [p['id'] for p in props]
    try:
        hook_commits = subprocess.check_output(
            ['git', '-C', '/repo', 'log', '--format=%H %s', '--grep=^verif:'], text=True).strip().splitlines()
    except Exception:
        hook_commits = []
    checks = []
    for i in ids:
        if i not in CHECKS:
            continue
        level, technique, text, note, ref = CHECKS[i]
        checks.append({
            "property_id": i,
            "quick_cmd": f"./check {i} --tier quick",
            "thorough_cmd": f"./check {i} --tier thorough",
            "evidence_file": f"/verif/evidence/{i}.json",
            "replay_cmd_template": f"./check {i} --replay {{path}}",
            "engine": "mrverif",
            "level_claimed": {"category": level, "text": text, "design_ref": f"DESIGN.md section {ref}"},
            "level_note": note,
            "technique": technique,
        })
    na = [{"property_id": i, "reason": NOT_YET.get(i, "check not built yet in this revision of /verif (planned, see DESIGN.md section 4)")}
          for i in ids if i not in CHECKS]
    m = {
        "version": 1,
        "setup_cmd": "./setup.sh",
        "hooks": {
            "guard": "--cfg pnordahl_monorail_verif",
            "enable": "RUSTFLAGS-equivalent in /verif/harness/.cargo/config.toml: --cfg tokio_unstable --cfg pnordahl_monorail_verif (applies to the harness, its monorail path dependency and the build of /repo's monorail binary)",
            "baseline_off_cmd": "cd /repo && cargo test --workspace --no-fail-fast --offline",
            "source_commits": [c.split()[0] for c in hook_commits],
            "add_only": True,
        },
        "engines": [
            {"name": "mrverif", "path": "/verif/harness", "serves_properties": [c["property_id"] for c in checks],
             "kind_free_text": "Rust driver: proptest TestRunner per worker thread (seeded from VERIF_SEED), bounded-exhaustive iterators, reference model, in-process hooks and black-box CLI orchestration with a trace-writing helper executable"},
        ],
        "checks": checks,
        "not_applicable": na,
        "notes": "exit codes: 0 held, 1 VIOLATION, 2 inconclusive (build failure / watchdog). VERIF_SEED, VERIF_JOBS (default 16), VERIF_SCALE (case-count multiplier) are honoured.",
    }
    json.dump(m, open('/verif/MANIFEST.json', 'w'), indent=1)
    print("checks:", len(checks), "not_applicable:", len(na))

if __name__ == '__main__':
    main()
