#!/usr/bin/env python3
"""Regenerates /verif/MANIFEST.json from the table below (single source of truth)."""
import json, subprocess

CHECKS = {
 # id: (level, technique, level text, level_note, design_ref)
 "C01": ("exploration", "property-based differential testing against a reference model (proptest) + metamorphic relations",
         "Random search with shrinking over configurations x change sets (in-process through the analyze hook, and through the real CLI on generated repositories) against an independent reference model of the change-to-target relation, plus order/duplication/split metamorphic relations. Exploration is the right level: the property quantifies over unbounded inputs and has an executable oracle.",
         "trusts the reference model in harness/src/model.rs (written from the statement), the analyze hook being a faithful wrapper of Index::new + analyze, and git printing plain names verbatim", "4/C01"),
 "C03": ("exploration", "bounded-exhaustive enumeration of digraphs + property-based testing with a validity predicate (proptest)",
         "Every labelled digraph on <=4 (quick) / <=5 (thorough) nodes x every root subset, random DAGs to 40 nodes and random acyclic configurations in random declaration order; any valid layering is accepted.",
         "trusts model::valid_layering/dep and the dag_groups/index_groups hooks", "4/C03"),
 "C09": ("exploration", "bounded-exhaustive enumeration of cyclic digraphs + property-based testing (proptest)",
         "Every labelled digraph with a cycle reachable from the roots on <=4/<=5 nodes, random cyclic graphs and configurations with a forced back edge (uses-only and nesting cycles): must be rejected with a cycle error, never grouped, never panic or hang (watchdog).",
         "hang = 30 s watchdog on a microsecond computation; trusts model::has_cycle_reachable", "4/C09"),
 "C10": ("exploration", "property-based set-equality check against a reference relation (proptest)",
         "Random target path sets and uses entries of every listed shape; the index's edge set (hook) and the rendered dot file (CLI) must equal dep(T,U) in both directions.",
         "trusts model::dep and the index_edges hook (read accessor of the adjacency list)", "4/C10"),
}

NOT_YET = {}

def main():
    props = [json.loads(l) for l in open('/verif/properties.jsonl')]
    ids = [p['id'] for p in props]
    try:
        hook_commits = subprocess.check_output(
            ['git', '-C', '/repo', 'log', '--format=%H %s', '--grep=^verif:'], text=True).strip().splitlines()
    except Exception:
        hook_commits = []
    checks = []
    for i in ids:
        if i not in CHECKS:
            continue
        level, technique, text, note, ref = CHECKS[i]
        checks.append({
            "property_id": i,
            "quick_cmd": f"./check {i} --tier quick",
            "thorough_cmd": f"./check {i} --tier thorough",
            "evidence_file": f"/verif/evidence/{i}.json",
            "replay_cmd_template": f"./check {i} --replay {{path}}",
            "engine": "mrverif",
            "level_claimed": {"category": level, "text": text, "design_ref": f"DESIGN.md section {ref}"},
            "level_note": note,
            "technique": technique,
        })
    na = [{"property_id": i, "reason": NOT_YET.get(i, "check not built yet in this revision of /verif (planned, see DESIGN.md section 4)")}
          for i in ids if i not in CHECKS]
    m = {
        "version": 1,
        "setup_cmd": "./setup.sh",
        "hooks": {
            "guard": "--cfg pnordahl_monorail_verif",
            "enable": "RUSTFLAGS-equivalent in /verif/harness/.cargo/config.toml: --cfg tokio_unstable --cfg pnordahl_monorail_verif (applies to the harness, its monorail path dependency and the build of /repo's monorail binary)",
            "baseline_off_cmd": "cd /repo && cargo test --workspace --no-fail-fast --offline",
            "source_commits": [c.split()[0] for c in hook_commits],
            "add_only": True,
        },
        "engines": [
            {"name": "mrverif", "path": "/verif/harness", "serves_properties": [c["property_id"] for c in checks],
             "kind_free_text": "Rust driver: proptest TestRunner per worker thread (seeded from VERIF_SEED), bounded-exhaustive iterators, reference model, in-process hooks and black-box CLI orchestration with a trace-writing helper executable"},
        ],
        "checks": checks,
        "not_applicable": na,
        "notes": "exit codes: 0 held, 1 VIOLATION, 2 inconclusive (build failure / watchdog). VERIF_SEED, VERIF_JOBS (default 16), VERIF_SCALE (case-count multiplier) are honoured.",
    }
    json.dump(m, open('/verif/MANIFEST.json', 'w'), indent=1)
    print("checks:", len(checks), "not_applicable:", len(na))

if __name__ == '__main__':
    main()
