#!/bin/sh
# usage: tools/mlock.sh <seed-name> <ID>  - mutant2.sh under the lock that tools/round.sh uses
while ! mkdir /tmp/mut.lock 2>/dev/null; do sleep 5; done
trap 'rmdir /tmp/mut.lock' EXIT
/verif/tools/mutant2.sh /verif/seeded/$1/patch.diff $2 quick 2>&1 | grep -E "violation detail|VIOLATION|^OK|^FAIL|INCONCL" | cut -c1-300
