#!/bin/sh
# Offline (re)build of the harness and of /repo's monorail binary, hooks enabled.
# Incremental: a no-op when nothing changed; always reflects /repo's working tree.
export CARGO_NET_OFFLINE=true
cd /verif/harness || exit 2
LOG=/verif/.build/build.log
mkdir -p /verif/.build
if ! cargo build --bins >"$LOG" 2>&1; then
    cat "$LOG"
    echo "INCONCLUSIVE harness build failed"
    exit 2
fi
if ! cargo build --manifest-path /repo/Cargo.toml --bin monorail >>"$LOG" 2>&1; then
    cat "$LOG"
    echo "INCONCLUSIVE build of /repo failed (with hooks enabled)"
    exit 2
fi
exit 0
